"""C20 — gene and collection aggregates are the stated functions of their children."""
from hypothesis import strategies as st

import harness.compat  # noqa: F401
from harness import refmodel as rm
from harness import strategies as S
from harness.build import mkgene, mkfc, mkcollection, mktx, chrom_parent, chunk_parent
from harness.core import Leg, Prop
from inscripta.biocantor.exc import ValidationException, NoncodingTranscriptError, BioCantorException

from checks.c05 import model_translate


def tx_positions(t):
    return rm.posset(t["exons"])


def expected_primary(children, flag_key, cds_len, spliced_len):
    flagged = [i for i, c in enumerate(children) if c.get(flag_key) is True]
    if len(flagged) > 1:
        return "error"
    if len(flagged) == 1:
        return flagged[0]
    best = None
    for i, c in enumerate(children):
        key = (cds_len(c), spliced_len(c), -i)
        if best is None or key > best[0]:
            best = (key, i)
    return best[1]


def check_gene(spec, ctx):
    g = spec["obj"]
    txs = g["transcripts"]
    genome = spec.get("genome")
    chunk = spec.get("chunk") if genome else None
    parent = (chunk_parent(genome, chunk[0], chunk[1], strand=spec.get("chunk_strand", "+"), idiom=spec.get("chunk_idiom", "api")) if chunk else chrom_parent(genome)) if genome else None
    if chunk:
        # aggregates are chromosome-level answers: a sequence chunk that contains, cuts or misses the children changes none
        allp = set()
        for t in txs:
            allp |= tx_positions(t)
        ins = [p_ for p_ in allp if chunk[0] <= p_ < chunk[1]]
        ctx.label("on_chunk", "chunk_cuts_gene" if 0 < len(ins) < len(allp) else ("chunk_misses_gene" if not ins else "chunk_contains_gene"))
    strands = {t["strand"] for t in txs}
    coding = [("cds" in t) for t in txs]
    cds_len = lambda t: sum(e - s for s, e in t["cds"]) if "cds" in t else 0  # noqa: E731
    spl_len = lambda t: sum(e - s for s, e in t["exons"])  # noqa: E731
    if len(txs) >= 2:
        keys = [(cds_len(t), spl_len(t)) for t in txs]
        if len({k[0] for k in keys}) < len(keys) and max(k[0] for k in keys) > 0 and sorted(k[0] for k in keys)[-1] == sorted(k[0] for k in keys)[-2]:
            ctx.nt("cds_tie")
        if sorted(keys)[-1] == sorted(keys)[-2]:
            ctx.nt("length_tie")
        if len(strands) > 1:
            ctx.nt("mixed_strand")
        if any(coding) and not all(coding):
            ctx.nt("mixed_coding")
    if g.get("gene_type") is None:
        ctx.label("gene_type_none")
    exp_primary = expected_primary(txs, "is_primary_tx", cds_len, spl_len)
    if exp_primary == "error":
        ctx.nt("two_primary_flags")
        try:
            mkgene(g, parent)
            ctx.fail("several_primary_flags_accepted")
        except ValidationException:
            pass
        return
    if spec.get("collection_without_parent") and parent is not None:
        # the members carry the sequence, the grouping object was built without a parent (it is an optional argument)
        gene = mkgene(g, parent, parent_or_seq_chunk_parent=None)
        ctx.label("members_carry_the_sequence")
    else:
        gene = mkgene(g, parent)
    lo, hi = min(t["exons"][0][0] for t in txs), max(t["exons"][-1][1] for t in txs)
    ctx.eq("span", (gene.start, gene.end), (lo, hi))
    ctx.eq("span_location", (gene.chromosome_location.start, gene.chromosome_location.end), (lo, hi))
    # (a gene's own location is its span on the plus strand, whatever the strands of its transcripts - documented)
    ctx.eq("span_location_strand", rm.loc_strand(gene.chromosome_location), "+")
    ctx.eq("is_coding", gene.is_coding, any(coding))
    # the ranking keys: CDS size = sum of the CDS block lengths (a base shared by two overlapping blocks - the -1 frameshift model -
    # is read twice and counts twice), spliced size = sum of the exon lengths
    ctx.eq("member_cds_sizes", [t_.cds_size for t_ in gene.transcripts], [cds_len(t) for t in txs])
    ctx.eq("member_spliced_sizes", [len(t_) for t_ in gene.transcripts], [spl_len(t) for t in txs])
    # primary
    p = gene.get_primary_transcript()
    ctx.true("primary_is_child", any(p is t for t in gene.transcripts))
    idx = [i for i, t in enumerate(gene.transcripts) if t is p]
    ctx.eq("primary_choice", idx[0] if idx else None, exp_primary, extra=[(cds_len(t), spl_len(t), t.get("is_primary_tx")) for t in txs])
    ctx.true("primary_feature_alias", gene.get_primary_feature() is p)
    pt = txs[exp_primary]
    if "cds" in pt:
        ctx.true("primary_cds", gene.get_primary_cds() is gene.transcripts[exp_primary].cds)
    else:
        ctx.true("primary_cds_none", gene.get_primary_cds() is None)
    if genome and not chunk:
        ctx.eq("primary_transcript_sequence", str(gene.get_primary_transcript_sequence()), rm.seq_image(genome, rm.positions(pt["exons"], pt["strand"]), pt["strand"]))
        ctx.eq("primary_feature_sequence", str(gene.get_primary_feature_sequence()), str(gene.get_primary_transcript_sequence()))
        if "cds" in pt:
            model, deg = rm.frame_walk(pt["cds"], pt["strand"], pt["frames"])
            if not deg and model:
                seqs = [rm.seq_image(genome, c, pt["strand"]) for c in model]
                ctx.eq("primary_cds_sequence", str(gene.get_primary_cds_sequence()), "".join(seqs))
                exp = model_translate(seqs, "DEFAULT", False, True)
                prot = str(gene.get_primary_protein())
                ctx.true("primary_protein", len(prot) == len(exp) and all(a in o for a, o in zip(prot, exp)), {"got": prot})
        else:
            ctx.true("primary_protein_none", gene.get_primary_protein() is None)
    # merged transcript / cds
    union_tx = set()
    for t in txs:
        union_tx |= tx_positions(t)
    for name, call, exp in (("merged_transcript", gene.get_merged_transcript, union_tx), ("merged_feature", gene.get_merged_feature, union_tx)):
        try:
            m = call()
        except Exception as e:
            ctx.fail(name + "_raises", {"exc": repr(e)[:100], "strands": sorted(strands), "gene_type": g.get("gene_type")})
            continue
        bl = rm.loc_blocks(m.chromosome_location)
        ctx.eq(name + ":positions", sorted(rm.posset(bl)), sorted(exp))
        ctx.true(name + ":blocks_sorted_disjoint", all(bl[i][1] <= bl[i + 1][0] for i in range(len(bl) - 1)) and all(e > s_ for s_, e in bl), bl)
        ctx.eq(name + ":span", (m.start, m.end), (min(exp), max(exp) + 1))
    union_cds = set()
    for t in txs:
        if "cds" in t:
            union_cds |= rm.posset(t["cds"])
    try:
        m = gene.get_merged_cds()
        if not union_cds:
            ctx.fail("merged_cds_of_noncoding_gene_accepted", repr(m))
        else:
            bl = rm.loc_blocks(m.chromosome_location)
            ctx.eq("merged_cds:positions", sorted(rm.posset(bl)), sorted(union_cds))
            ctx.true("merged_cds:blocks_sorted_disjoint", all(bl[i][1] <= bl[i + 1][0] for i in range(len(bl) - 1)) and all(e > s_ for s_, e in bl), bl)
    except NoncodingTranscriptError:
        ctx.true("merged_cds_refused_for_coding_gene", not union_cds)
    except Exception as e:
        ctx.fail("merged_cds_raises", {"exc": repr(e)[:100], "strands": sorted(strands), "gene_type": g.get("gene_type")})
    ctx.eq("iter_children_order", [t.guid for t in gene.iter_children()], [t.guid for t in gene.transcripts])
    # a sub-gene selected AFTER the merged forms were computed covers its own members only, and the full gene answers as before
    if len(txs) >= 2:
        for keep in ([0], [len(txs) - 1], list(range(len(txs) - 1))):
            try:
                sub = gene.query_by_guids([gene.transcripts[i].guid for i in keep])
            except Exception as e:
                ctx.fail("query_by_guids_raises", repr(e)[:100])
                continue
            if sub is None:
                ctx.fail("query_by_guids_lost_members", keep)
                continue
            own = set()
            for i in keep:
                own |= tx_positions(txs[i])
            try:
                ctx.eq("subset_after_merge:merged_transcript_positions", sorted(rm.posset(rm.loc_blocks(sub.get_merged_transcript().chromosome_location))), sorted(own), extra=keep)
                ctx.eq("subset_after_merge:span", (sub.start, sub.end), (min(own), max(own) + 1), extra=keep)
            except Exception as e:
                ctx.fail("subset_after_merge_raises", {"exc": repr(e)[:100], "keep": keep})
        ctx.label("subset_selected_after_merge")
        try:
            ctx.eq("merged_transcript_again:positions", sorted(rm.posset(rm.loc_blocks(gene.get_merged_transcript().chromosome_location))), sorted(union_tx))
            ctx.eq("members_blocks_after_merges", [rm.loc_blocks(t.chromosome_location) for t in gene.transcripts], [[tuple(b) for b in rm.sorted_blocks(t["exons"])] for t in txs])
        except Exception as e:
            ctx.fail("merged_transcript_again_raises", repr(e)[:100])


def check_fc(spec, ctx):
    c = spec["obj"]
    feats = c["features"]
    genome = spec.get("genome")
    chunk = spec.get("chunk") if genome else None
    parent = (chunk_parent(genome, chunk[0], chunk[1], strand=spec.get("chunk_strand", "+"), idiom=spec.get("chunk_idiom", "api")) if chunk else chrom_parent(genome)) if genome else None
    if chunk:
        ctx.label("fc_on_chunk")
    strands = {f["strand"] for f in feats}
    spl_len = lambda f: sum(e - s for s, e in f["blocks"])  # noqa: E731
    if any(f.get("nested") for f in feats):
        ctx.label("feature_with_nested_blocks")
    if len(feats) >= 2:
        lens = sorted(spl_len(f) for f in feats)
        if lens[-1] == lens[-2]:
            ctx.nt("length_tie")
        if len(strands) > 1:
            ctx.nt("mixed_strand")
    exp_primary = expected_primary(feats, "is_primary_feature", lambda f: 0, spl_len)
    if exp_primary == "error":
        ctx.nt("two_primary_flags")
        try:
            mkfc(c, parent)
            ctx.fail("several_primary_flags_accepted")
        except ValidationException:
            pass
        return
    if spec.get("collection_without_parent") and parent is not None:
        fc = mkfc(c, parent, parent_or_seq_chunk_parent=None)
        ctx.label("members_carry_the_sequence")
    else:
        fc = mkfc(c, parent)
    lo, hi = min(f["blocks"][0][0] for f in feats), max(b_[1] for f in feats for b_ in f["blocks"])
    ctx.eq("fc_span", (fc.start, fc.end), (lo, hi))
    ctx.eq("fc_span_location", (fc.chromosome_location.start, fc.chromosome_location.end, rm.loc_strand(fc.chromosome_location)), (lo, hi, "+"))
    ctx.eq("fc_is_coding", fc.is_coding, False)
    types = set()
    for f in feats:
        types |= set(f.get("feature_types") or [])
    ctx.eq("fc_feature_types", sorted(fc.feature_types), sorted(types))
    # the ranking key: the spliced length of a member is the sum of its block lengths
    ctx.eq("fc_member_spliced_lengths", [len(fi_) for fi_ in fc.feature_intervals], [spl_len(f) for f in feats])
    p = fc.get_primary_feature()
    idx = [i for i, f in enumerate(fc.feature_intervals) if f is p]
    ctx.eq("fc_primary_choice", idx[0] if idx else None, exp_primary, extra=[(spl_len(f), f.get("is_primary_feature")) for f in feats])
    if genome and not chunk:
        pf = feats[exp_primary]
        ctx.eq("fc_primary_sequence", str(fc.get_primary_feature_sequence()), rm.seq_image(genome, rm.positions(pf["blocks"], pf["strand"]), pf["strand"]))
    union = set()
    for f in feats:
        union |= rm.posset(f["blocks"])
    try:
        m = fc.get_merged_feature()
        bl = rm.loc_blocks(m.chromosome_location)
        ctx.eq("fc_merged:positions", sorted(rm.posset(bl)), sorted(union))
        ctx.true("fc_merged:blocks_sorted_disjoint", all(bl[i][1] <= bl[i + 1][0] for i in range(len(bl) - 1)) and all(e > s_ for s_, e in bl), bl)
        ctx.eq("fc_merged:types", sorted(m.feature_types), sorted(types))
    except Exception as e:
        ctx.fail("fc_merged_raises", {"exc": repr(e)[:100], "strands": sorted(strands)})
    if len(feats) >= 2:
        for keep in ([0], [len(feats) - 1], list(range(len(feats) - 1))):
            try:
                sub = fc.query_by_guids([fc.feature_intervals[i].guid for i in keep])
                own = set()
                for i in keep:
                    own |= rm.posset(feats[i]["blocks"])
                if sub is None:
                    ctx.fail("fc_query_by_guids_lost_members", keep)
                    continue
                ctx.eq("fc_subset_after_merge:merged_feature_positions", sorted(rm.posset(rm.loc_blocks(sub.get_merged_feature().chromosome_location))), sorted(own), extra=keep)
            except Exception as e:
                ctx.fail("fc_subset_after_merge_raises", {"exc": repr(e)[:100], "keep": keep})
        ctx.label("subset_selected_after_merge")
        try:
            ctx.eq("fc_merged_again:positions", sorted(rm.posset(rm.loc_blocks(fc.get_merged_feature().chromosome_location))), sorted(union))
            ctx.eq("fc_members_blocks_after_merges", [rm.loc_blocks(f_.chromosome_location) for f_ in fc.feature_intervals], [[tuple(b) for b in rm.sorted_blocks(f_["blocks"])] for f_ in feats])
        except Exception as e:
            ctx.fail("fc_merged_again_raises", repr(e)[:100])


def check_collection_order(spec, ctx):
    o = spec["obj"]
    coll = mkcollection(o)
    ctx.nt()
    kids = list(coll.iter_children())
    starts = [k.start for k in kids]
    ctx.eq("collection_children_sorted_by_start", starts, sorted(starts))
    # stability: among equal starts, genes precede feature collections precede variant collections, each in list order
    exp = sorted(list(coll.genes) + list(coll.feature_collections) + list(coll.variant_collections), key=lambda x: x.start)
    ctx.eq("collection_children_stable", [str(k.guid) for k in kids], [str(k.guid) for k in exp])
    if len(set(starts)) < len(starts):
        ctx.label("equal_starts")
    vstarts = [v.start for v in coll.variant_collections]
    if len(vstarts) >= 2 and vstarts != sorted(vstarts):
        ctx.label("variant_collections_given_unsorted")
    ctx.eq("collection_iter_equals_children", [str(k.guid) for k in coll], [str(k.guid) for k in kids])
    nv = list(coll.iter_non_variant_children())
    ctx.eq("non_variant_children", sorted(str(k.guid) for k in nv), sorted(str(k.guid) for k in list(coll.genes) + list(coll.feature_collections)))
    los = [k.start for k in kids]
    his = [k.end for k in kids]
    ctx.eq("collection_span_from_children", (coll.start, coll.end), (min(los), max(his)))
    ctx.eq("collection_len", len(coll), len(coll.genes) + len(coll.feature_collections))


@st.composite
def strat_gene(draw, tier="quick"):
    n = draw(st.integers(1, 5))
    same = draw(st.integers(0, 3)) > 0
    strand = draw(st.sampled_from(["+", "-"]))
    txs = []
    # groups sharing a length: derive later transcripts from earlier ones
    for i in range(n):
        if txs and draw(st.integers(0, 2)) == 0:
            base = dict(draw(st.sampled_from(txs)))
            t = {k: (list(map(list, v)) if k in ("exons", "cds") else v) for k, v in base.items()}
            sh = draw(st.integers(0, 4))
            t["exons"] = [[s + sh, e + sh] for s, e in t["exons"]]
            if "cds" in t:
                t["cds"] = [[s + sh, e + sh] for s, e in t["cds"]]
                if draw(st.integers(0, 2)) == 0:
                    for k in ("cds", "frames", "offset", "frameshift", "cds_i", "cds_j", "protein_id", "product"):
                        t.pop(k, None)
                    t["transcript_type"] = "ncRNA"
        else:
            s = strand if same else draw(st.sampled_from(["+", "-"]))
            t = draw(S.transcript_spec(max_exons=3, max_len=7, strand=s, frameshift_prob=40, cds_overlap_prob=8))
        t["transcript_id"] = "tx%d" % i
        t["is_primary_tx"] = draw(st.sampled_from([None, None, None, None, False, True]))
        txs.append(t)
    g = {"transcripts": txs, "gene_id": draw(st.one_of(st.none(), S.IDENT)), "gene_symbol": draw(st.one_of(st.none(), S.IDENT)),
         "gene_type": draw(st.sampled_from(["protein_coding", "ncRNA", None])), "locus_tag": None, "qualifiers": draw(S.simple_qualifiers(1))}
    sp = {"obj": g}
    if draw(st.booleans()):
        hi = max(t["exons"][-1][1] for t in txs)
        sp["genome"] = draw(S.dna(hi + 1, hi + 3))
        if draw(st.booleans()):
            # an alternative initiator (or ATG) as first codon of some coding isoform, so that the translation table the protein
            # accessors use matters (random bases give TTG / CTG there once in thirty)
            gl = list(sp["genome"])
            for t in txs:
                if "cds" in t and draw(st.booleans()):
                    cod, _ = rm.frame_walk(t["cds"], t["strand"], t["frames"])
                    if cod:
                        for p_, ch in zip(cod[0], draw(st.sampled_from(["TTG", "CTG", "GTG", "ATG", "ATT"]))):
                            if 0 <= p_ < len(gl):
                                gl[p_] = ch if t["strand"] == "+" else rm.comp_char(ch)
            sp["genome"] = "".join(gl)
        if draw(st.integers(0, 2)) == 0:
            a = draw(st.integers(0, hi))
            sp["chunk"] = [a, draw(st.integers(a + 1, len(sp["genome"])))]
            sp.update(draw(S.chunk_flavour()))
        sp["collection_without_parent"] = draw(st.integers(0, 3)) == 0
    return sp


@st.composite
def strat_fc(draw, tier="quick"):
    n = draw(st.integers(1, 5))
    feats = []
    for i in range(n):
        if feats and draw(st.integers(0, 2)) == 0:
            base = draw(st.sampled_from(feats))
            f = dict(base)
            sh = draw(st.integers(0, 4))
            f["blocks"] = [[s + sh, e + sh] for s, e in base["blocks"]]
        else:
            f = draw(S.feature_spec(max_blocks=3, max_len=7))
            # a block nested inside another: the spliced length counts the shared bases twice (it is the sum of the block lengths)
            if S.nest_block(draw, f["blocks"], 4):
                f["nested"] = True
        f["feature_id"] = "f%d" % i
        f["is_primary_feature"] = draw(st.sampled_from([None, None, None, None, False, True]))
        feats.append(f)
    c = {"features": feats, "feature_collection_name": draw(st.one_of(st.none(), S.IDENT)), "feature_collection_id": "fc", "qualifiers": {}}
    sp = {"obj": c}
    if draw(st.booleans()):
        hi = max(b_[1] for f in feats for b_ in f["blocks"])
        sp["genome"] = draw(S.dna(hi + 1, hi + 3))
        if draw(st.integers(0, 2)) == 0:
            a = draw(st.integers(0, hi))
            sp["chunk"] = [a, draw(st.integers(a + 1, len(sp["genome"])))]
            sp.update(draw(S.chunk_flavour()))
        sp["collection_without_parent"] = draw(st.integers(0, 3)) == 0
    return sp


@st.composite
def strat_coll(draw, tier="quick"):
    o = draw(S.collection_spec(max_genes=3, max_fcs=3, region_step=0))
    o.pop("hi")
    # shuffle member lists
    # several variant collections (single SNVs anywhere in the span, also tying on start with genes), in any list order
    nv = draw(st.integers(0, 3))
    lo = min([t["exons"][0][0] for g_ in o["genes"] for t in g_["transcripts"]] + [f["blocks"][0][0] for c in o["feature_collections"] for f in c["features"]] + [0])
    hi = max([t["exons"][-1][1] for g_ in o["genes"] for t in g_["transcripts"]] + [f["blocks"][-1][1] for c in o["feature_collections"] for f in c["features"]] + [5])
    vcs = list(o.get("variant_collections") or [])
    for i in range(nv):
        p_ = draw(st.integers(lo, hi + 3))
        vcs.append({"variants": [{"start": p_, "end": p_ + 1, "sequence": "G", "variant_type": "SNV", "variant_id": "sv%d" % i}], "variant_collection_id": "svc%d" % i, "qualifiers": {}})
    o["variant_collections"] = list(draw(st.permutations(vcs)))
    o["genes"] = list(draw(st.permutations(o["genes"])))
    o["feature_collections"] = list(draw(st.permutations(o["feature_collections"])))
    return {"obj": o}


PROP = Prop(
    pid="C20",
    legs=[
        Leg("gene", check_gene, strategy=strat_gene, n_quick=900, n_thorough=9000, shards_quick=4,
            must_hit=["cds_tie", "length_tie", "two_primary_flags", "mixed_strand", "mixed_coding", "gene_type_none"],
            rule="genes with 1..5 transcripts, later transcripts derived from earlier ones (shifted copies -> engineered ties in CDS and spliced length), strand mix, coding mix, primary flags none/one/several, gene type possibly missing"),
        Leg("feature_collection", check_fc, strategy=strat_fc, n_quick=700, n_thorough=7000,
            must_hit=["length_tie", "two_primary_flags", "mixed_strand"],
            rule="feature collections with 1..5 features, shifted copies for length ties, strand mix, primary flags"),
        Leg("collection_order", check_collection_order, strategy=strat_coll, n_quick=250, n_thorough=2500, shards_quick=4,
            must_hit=["equal_starts", "variant_collections_given_unsorted"],
            rule="annotation collections with shuffled member lists; iteration order by start, stable"),
    ],
    rule="Oracle: min/max, set union of positions (PosModel), any(), union of types, argmax by (CDS length, spliced length, -index) or the single flagged "
         "child. Non-trivial: >=2 children with a tie or a strand/coding mix, or several primary flags.",
    assumptions=["ties are broken by list position (documented: 'the position of the feature within the ordered list')"],
)
