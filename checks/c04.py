"""C04 — lift-over through nested coordinate systems composes and preserves sequence."""
from hypothesis import strategies as st

import harness.compat  # noqa: F401
from harness import refmodel as rm
from harness import strategies as S
from harness.build import mkloc, mkloc_blocks, STRAND
from harness.core import Leg, Prop
from inscripta.biocantor.exc import NoSuchAncestorException, LocationOverlapException, BioCantorException
from inscripta.biocantor.gene.interval import AbstractInterval
from inscripta.biocantor.io.parser import seq_chunk_to_parent, seq_to_parent
from inscripta.biocantor.location.location_impl import EmptyLocation
from inscripta.biocantor.parent import Parent
from inscripta.biocantor.sequence import Sequence
from inscripta.biocantor.sequence.alphabet import Alphabet

TYPES = ["chromosome", "sequence_chunk", "contig", "region"]
# a hierarchy without any sequence_chunk level (contig -> scaffold -> chromosome): interval objects built on its lowest level keep
# that level's coordinates (no chunk lift happens) and must lift through the same composition as their location
TYPES_NO_CHUNK = ["chromosome", "scaffold", "contig", "region"]
_case = [0]


def build_hierarchy(spec):
    """returns (parents[level] without location, sequences[level], maps[level] = positions of level on level-1)"""
    _case[0] += 1
    tag = "h%d_" % _case[0]  # distinct ids per case: Parent objects are cached on value
    G0 = spec["genome"]
    seqs = [G0]
    maps = [None]
    strands = [None]
    for pl in spec["placements"]:
        pos = rm.positions(pl["blocks"], pl["strand"])
        maps.append(pos)
        strands.append(pl["strand"])
        seqs.append(rm.seq_image(seqs[-1], pos, pl["strand"]))
    d = len(spec["placements"])
    A = Alphabet.NT_STRICT
    TYPES = TYPES_NO_CHUNK if spec.get("no_chunk_level") else globals()["TYPES"]
    # the two built-in types may be spelled in any casing ("Chromosome", "SEQUENCE_CHUNK"): they denote the same type
    case = {"upper": str.upper, "title": lambda x: "_".join(w.capitalize() for w in x.split("_"))}.get(spec.get("type_case"))
    if case:
        TYPES = [case(t_) if t_ in ("chromosome", "sequence_chunk") else t_ for t_ in TYPES]
    # Q[i]: Parent of level i carrying the placement of level i+1 on it, and its own parent chain
    chain = None
    seq_objs = []
    for i in range(d + 1):
        skw = {}
        if i >= 1 and (spec.get("seq_knows_parent") or [False] * (d + 1))[i] and seq_objs[i - 1].parent is None:
            # the sequence of this level records on its own which molecule it was cut from (name, type, bases) but not where, nor
            # that molecule's ancestry: the placement and the rest of the chain come in through parent= (which wins, documented).
            # (Not on two consecutive levels: the library compares the recorded grandparent with the explicit one, location included.)
            skw["parent"] = Parent(id=tag + "L%d" % (i - 1), sequence_type=TYPES[i - 1], sequence=seq_objs[i - 1])
        seq_objs.append(Sequence(seqs[i], A, id=tag + "L%d" % i, type=TYPES[i], **skw))
        kwargs = dict(id=tag + "L%d" % i, sequence_type=TYPES[i], sequence=seq_objs[i])
        if i < d:
            kwargs["location"] = mkloc(spec["placements"][i])
        if chain is not None:
            kwargs["parent"] = chain
        chain = Parent(**kwargs)
    build_hierarchy.seq_objs = seq_objs   # the Sequence objects of the levels (a sequence that names its parent is equal only to one that does too)
    return chain, seqs, maps, strands, tag


def compose_down(pos_list, strand, maps, strands, frm, to):
    """map positions on level ``frm`` to level ``to`` (< frm)"""
    for lvl in range(frm, to, -1):
        pos_list = [maps[lvl][p] for p in pos_list]
        strand = rm.compose(strand, strands[lvl])
    return pos_list, strand


def check_revcomp_level(spec, ctx):
    """a level made by the public Sequence.reverse_complement() of a sequence that records where it lies on its parent (single- or
    multi-block, either strand): position j of the reverse complement is position L-1-j of the original on the opposite strand, so
    a child on it lifts to the chromosome through that reflection and the placement"""
    _case[0] += 1
    tag = "rc%d_" % _case[0]
    G0 = spec["genome"]
    pl = spec["placements"][0]
    ppos = rm.positions(pl["blocks"], pl["strand"])          # level-1 position -> chromosome position
    s1 = rm.seq_image(G0, ppos, pl["strand"])
    root = Sequence(G0, Alphabet.NT_STRICT, id=tag + "L0", type="chromosome")
    lvl1 = Sequence(s1, Alphabet.NT_STRICT, id=tag + "L1", type="contig", parent=mkloc(pl, Parent(id=tag + "L0", sequence_type="chromosome", sequence=root)))
    try:
        rc = lvl1.reverse_complement()
    except BioCantorException as e:
        ctx.fail("revcomp_level:reverse_complement_raises", repr(e)[:100])
        return
    ctx.label("level_made_by_reverse_complement")
    # the sequences themselves answer the ancestor questions (own type counted only when asked to)
    for nm_, sq_ in (("placed_sequence", lvl1), ("its_reverse_complement", rc)):
        ctx.eq("revcomp_level:%s:has_chromosome_ancestor" % nm_, sq_.has_ancestor_of_type("chromosome"), True)
        # (the reverse complement carries the type it was given - none here - not the type of the sequence it was made from)
        ctx.eq("revcomp_level:%s:has_own_type" % nm_, (sq_.has_ancestor_of_type("contig"), sq_.has_ancestor_of_type("contig", include_self=False)), (sq_ is lvl1, False))
        ctx.eq("revcomp_level:%s:has_absent_ancestor" % nm_, sq_.has_ancestor_of_type("plasmid"), False)
        try:
            anc = sq_.first_ancestor_of_type("chromosome")
            ctx.eq("revcomp_level:%s:first_chromosome_ancestor" % nm_, (anc.id, str(anc.sequence_type.value if hasattr(anc.sequence_type, "value") else anc.sequence_type)), (tag + "L0", "chromosome"))
        except BioCantorException as e:
            ctx.fail("revcomp_level:%s:first_ancestor_raises" % nm_, repr(e)[:100])
        try:
            sq_.first_ancestor_of_type("plasmid")
            ctx.fail("revcomp_level:%s:absent_ancestor_answered" % nm_)
        except NoSuchAncestorException:
            pass
    if len(rm.sorted_blocks(pl["blocks"])) >= 2:
        ctx.label("reverse_complement_of_a_multiblock_placement")
    L = len(s1)
    C = spec["child"]
    cpos = [p_ for p_ in rm.positions(C["blocks"], C["strand"])]
    if not cpos or max(cpos) >= L:
        return
    child = mkloc(C, rc)
    ctx.eq("revcomp_level:child_sequence", str(child.extract_sequence()), rm.seq_image(rm.revcomp(s1), cpos, C["strand"]))
    exp_strand = rm.compose(rm.compose(C["strand"], "-"), pl["strand"])
    exp_pos = [ppos[L - 1 - j] for j in cpos]
    try:
        lifted = child.lift_over_to_first_ancestor_of_type("chromosome")
    except (BioCantorException, ValueError) as e:
        ctx.fail("revcomp_level:lift_raises", repr(e)[:120])
        return
    # (block order of the image follows the usual representation rule; compared as the 5'->3' position list when representable)
    got = rm.loc_positions(lifted)
    if sorted(got) == sorted(exp_pos) and got != exp_pos and len(rm.blocks_of_set(set(exp_pos))) > 1 and rm.has_self_overlap(C["blocks"]):
        pass
    else:
        ctx.eq("revcomp_level:chromosome_positions", got, exp_pos)
    ctx.eq("revcomp_level:chromosome_strand", rm.loc_strand(lifted), exp_strand)
    # the lifted location names the bases the child reads on its own parent (read off the chromosome by the model: the parent a
    # reverse complement records carries the placement, not the chromosome's sequence)
    ctx.eq("revcomp_level:lifted_location_names_the_child_bases", rm.seq_image(G0, got, rm.loc_strand(lifted)) if rm.loc_strand(lifted) in "+-" else None, str(child.extract_sequence()))


def check_hierarchy(spec, ctx):
    if spec.get("revcomp_level"):
        check_revcomp_level(spec, ctx)
    if spec.get("type_case"):
        ctx.label("built_in_types_in_other_casing")
    if any((spec.get("seq_knows_parent") or [])[1:]):
        ctx.label("a_sequence_names_its_parent_molecule")
    d = len(spec["placements"])
    TYPES = TYPES_NO_CHUNK if spec.get("no_chunk_level") else globals()["TYPES"]
    lowest, seqs, maps, strands, tag = build_hierarchy(spec)
    C = spec["child"]
    child = mkloc(C, lowest)
    cpos = rm.positions(C["blocks"], C["strand"])
    cseq = rm.seq_image(seqs[d], cpos, C["strand"])
    n_minus = sum(1 for s in strands[1:] if s == "-")
    multi = any(len(rm.sorted_blocks(p["blocks"])) > 1 for p in spec["placements"])
    if d >= 3:
        ctx.label("depth>=3")
    if n_minus >= 2:
        ctx.label("two_minus_levels")
    if d >= 2 and n_minus >= 1 and multi:
        ctx.nt()
    # split across parent blocks?
    for lvl in range(d, 0, -1):
        pass
    ctx.eq("child_extract", str(child.extract_sequence()), cseq)
    for target in range(d, -1, -1):
        exp_pos, exp_strand = compose_down(cpos, C["strand"], maps, strands, d, target)
        lifted = child.lift_over_to_first_ancestor_of_type(TYPES[target])
        clause = "lift_type[d=%d->%d]" % (d, target)
        rm.wellformed(lifted, ctx, clause, optimized=False, parent_len=len(seqs[target]), expect_strand=exp_strand)
        ctx.eq(clause + ":positions", rm.loc_positions(lifted), exp_pos)
        ctx.true(clause + ":parent", lifted.parent is not None and lifted.parent.id == tag + "L%d" % target and lifted.parent.sequence_type == TYPES[target])
        ctx.eq(clause + ":sequence", str(lifted.extract_sequence()), cseq)
        ctx.eq(clause + ":sequence_model", rm.seq_image(seqs[target], exp_pos, exp_strand), cseq)
        if target < d:
            blocks_before = len(rm.sorted_blocks(C["blocks"]))
            if len(rm.blocks_of_set(set(exp_pos))) > blocks_before:
                ctx.nt("block_split_across_parent_blocks")
        # by sequence identity (contiguous child only)
        target_seq = Sequence(seqs[target], Alphabet.NT_STRICT, id=tag + "L%d" % target, type=TYPES[target], parent=build_hierarchy.seq_objs[target].parent)
        ctx.eq(clause + ":has_ancestor_sequence", child.has_ancestor_sequence(target_seq), True)
        ctx.eq(clause + ":has_ancestor_of_type", child.has_ancestor_of_type(TYPES[target]), True)
        contiguous = len(rm.blocks_of_set(set(cpos))) == 1 and not rm.has_self_overlap(C["blocks"])
        # lift_over_to_sequence requires a contiguous location at every level it passes through (documented ValueError)
        contig_all = True
        for lvl in range(d, target - 1, -1):
            img, _ = compose_down(cpos, C["strand"], maps, strands, d, lvl)
            if len(rm.blocks_of_set(set(img))) != 1:
                contig_all = False
        if child.is_contiguous and contig_all:
            l2 = child.lift_over_to_sequence(target_seq)
            ctx.eq(clause + ":by_sequence_positions", rm.loc_positions(l2), exp_pos)
            ctx.eq(clause + ":by_sequence_strand", rm.loc_strand(l2), exp_strand)
            ctx.label("lift_by_sequence")
        else:
            try:
                child.lift_over_to_sequence(target_seq)
                ctx.fail(clause + ":by_sequence_noncontiguous_accepted")
            except ValueError:
                pass
    # a second location built on the very same Parent OBJECT as the first, same coordinates, other strand (the antisense of a
    # feature): it lifts to the same bases on the opposite strand, whatever the first one left on that Parent
    if len(rm.sorted_blocks(C["blocks"])) == 1 and C["strand"] in "+-":
        from inscripta.biocantor.location.location_impl import SingleInterval as _SI
        b0 = rm.sorted_blocks(C["blocks"])[0]
        first = _SI(b0[0], b0[1], STRAND[C["strand"]], parent=lowest)
        anti = _SI(first.start, first.end, first.strand.reverse(), parent=first.parent)
        for target in range(d, -1, -1):
            exp_pos, exp_strand = compose_down(rm.positions([b0], rm.flip(C["strand"])), rm.flip(C["strand"]), maps, strands, d, target)
            la = anti.lift_over_to_first_ancestor_of_type(TYPES[target])
            ctx.eq("antisense_on_same_parent_object[d=%d->%d]:positions" % (d, target), rm.loc_positions(la), exp_pos)
            ctx.eq("antisense_on_same_parent_object[d=%d->%d]:strand" % (d, target), rm.loc_strand(la), exp_strand)
        ctx.eq("antisense_on_same_parent_object:sequence", str(anti.extract_sequence()), rm.seq_image(seqs[d], rm.positions([b0], rm.flip(C["strand"])), rm.flip(C["strand"])))
        ctx.label("antisense_on_same_parent_object")
    # interval objects (features, transcripts) built on the lowest level lift like their location
    if spec.get("no_chunk_level") and not rm.has_self_overlap(C["blocks"]) and all(b[1] > b[0] for b in C["blocks"]):
        from inscripta.biocantor.gene.feature import FeatureInterval
        from inscripta.biocantor.gene.transcript import TranscriptInterval
        bl_ = rm.sorted_blocks(C["blocks"])
        for cls_name, make in (("feature", lambda: FeatureInterval([b[0] for b in bl_], [b[1] for b in bl_], STRAND[C["strand"]], parent_or_seq_chunk_parent=lowest)),
                               ("transcript", lambda: TranscriptInterval([b[0] for b in bl_], [b[1] for b in bl_], STRAND[C["strand"]], parent_or_seq_chunk_parent=lowest))):
            try:
                obj = make()
            except BioCantorException as e:
                ctx.refuse("interval_on_hierarchy_refused:" + type(e).__name__)
                continue
            ctx.label("interval_object_on_hierarchy")
            ctx.eq(cls_name + ":spliced_sequence", str(obj.get_spliced_sequence()), cseq)
            for target in range(d, -1, -1):
                exp_pos, exp_strand = compose_down(cpos, C["strand"], maps, strands, d, target)
                try:
                    lifted = obj.lift_over_to_first_ancestor_of_type(TYPES[target])
                except BioCantorException as e:
                    ctx.fail("%s:lift_type[d=%d->%d]:raises" % (cls_name, d, target), repr(e)[:120])
                    continue
                clause = "%s:lift_type[d=%d->%d]" % (cls_name, d, target)
                ctx.eq(clause + ":positions", rm.loc_positions(lifted), exp_pos)
                ctx.eq(clause + ":strand", rm.loc_strand(lifted), exp_strand)
                ctx.true(clause + ":parent", lifted.parent is not None and lifted.parent.sequence_type == TYPES[target], repr(lifted.parent)[:80])
                ctx.eq(clause + ":sequence", str(lifted.extract_sequence()), cseq)
            try:
                r = obj.lift_over_to_first_ancestor_of_type("plasmid")
                ctx.fail(cls_name + ":absent_type_answered", repr(r)[:80])
            except NoSuchAncestorException:
                pass
    # absent ancestors are refused
    ctx.label("no_ancestor")
    ctx.eq("has_ancestor_of_type_absent", child.has_ancestor_of_type("plasmid"), False)
    try:
        r = child.lift_over_to_first_ancestor_of_type("plasmid")
        ctx.fail("absent_type_answered", repr(r))
    except NoSuchAncestorException:
        pass
    other = Sequence(seqs[0] + "A", Alphabet.NT_STRICT, id=tag + "L0", type=TYPES[0])
    ctx.eq("has_ancestor_sequence_absent", child.has_ancestor_sequence(other), False)
    try:
        r = child.lift_over_to_sequence(other)
        ctx.fail("absent_sequence_answered", repr(r))
    except (NoSuchAncestorException, ValueError):
        pass
    # a type deeper than the child (d+1) is also absent
    if d + 1 < len(TYPES):
        try:
            child.lift_over_to_first_ancestor_of_type(TYPES[d + 1])
            ctx.fail("deeper_type_answered")
        except NoSuchAncestorException:
            pass


# ------------------------------------------------------------------------------------ chunk leg


def check_chunk(spec, ctx):
    _case[0] += 1
    G = spec["genome"]
    name = "c%d" % _case[0]
    L = spec["loc"]
    cs, ce = spec["chunk"]
    pos = rm.positions(L["blocks"], L["strand"])
    loc_parent_mode = spec["loc_parent"]
    if loc_parent_mode == "none":
        loc = mkloc(L)
    elif loc_parent_mode == "chrom_seq":
        loc = mkloc(L, seq_to_parent(G, alphabet=Alphabet.NT_STRICT, seq_id=name))
    else:
        loc = mkloc(L, Parent(id=name, sequence_type="chromosome"))
    st1, st2 = spec.get("chunk_strand", "+"), spec.get("chunk2_strand", "+")

    def mk_chunk(a, b, st_):
        sub = G[a:b] if st_ == "+" else rm.revcomp(G[a:b])
        return seq_chunk_to_parent(sub, name, a, b, strand=STRAND[st_], alphabet=Alphabet.NT_STRICT)

    def on_chunk(ps, a, b, st_):
        return [p - a for p in ps] if st_ == "+" else [b - 1 - p for p in ps]

    chunk_parent = mk_chunk(cs, ce, st1)
    inside = [p for p in pos if cs <= p < ce]
    bl = rm.sorted_blocks(L["blocks"])
    if any(s < cs < e or s < ce < e for s, e in bl):
        ctx.nt("chunk_cuts_block")
    if not inside:
        ctx.nt("chunk_misses")
    if L["strand"] == "-":
        ctx.label("minus")
    if st1 == "-":
        ctx.label("minus_chunk")
    lifted = AbstractInterval.liftover_location_to_seq_chunk_parent(loc, chunk_parent)
    if not inside:
        ctx.true("chunk_miss_is_empty", lifted is EmptyLocation(), repr(lifted))
        return
    if not ctx.true("chunk_hit_not_empty", lifted is not EmptyLocation() and not lifted.is_empty, repr(lifted)):
        return
    strand1 = rm.compose(L["strand"], st1)
    rm.wellformed(lifted, ctx, "chunk_lift", optimized=False, parent_len=ce - cs, expect_strand=strand1)
    ne_ = [b for b in bl if b[1] > b[0]]
    overlapping = any(ne_[i][1] > ne_[i + 1][0] for i in range(len(ne_) - 1))
    if overlapping:
        ctx.nt("overlapping_blocks")
    # clipping overlapping blocks to the window can make two of them tie on start or end; the 5'->3' order of such blocks is
    # not something a Location represents (C01, F1/F25), so those windows are compared as multisets of positions
    cl_ = [(max(s_, cs), min(e_, ce)) for s_, e_ in ne_ if max(s_, cs) < min(e_, ce)]
    tied = len({a for a, _ in cl_}) < len(cl_) or len({b for _, b in cl_}) < len(cl_)
    if tied:
        ctx.label("clipped_blocks_tie")
    od = (lambda x: sorted(x)) if tied else (lambda x: list(x))
    ctx.eq("chunk_relative_positions", od(rm.loc_positions(lifted)), od(on_chunk(inside, cs, ce, st1)))
    # the block structure (incl. adjacent blocks, which model frameshifts in CDS) is kept, clipped to the window
    clipped = [(max(s_, cs), min(e_, ce)) for s_, e_ in bl if max(s_, cs) < min(e_, ce)]
    exp_blocks = [(a - cs, b - cs) for a, b in clipped] if st1 == "+" else sorted((ce - b, ce - a) for a, b in clipped)
    ctx.eq("chunk_block_structure", sorted(b for b in rm.loc_blocks(lifted) if b[1] > b[0]), sorted(exp_blocks))
    if any(bl[i][1] == bl[i + 1][0] for i in range(len(bl) - 1)):
        ctx.label("adjacent_blocks")
    if tied:
        ctx.eq("chunk_sequence_letters", sorted(str(lifted.extract_sequence())), sorted(rm.seq_image(G, inside, L["strand"])))
    else:
        ctx.eq("chunk_sequence", str(lifted.extract_sequence()), rm.seq_image(G, inside, L["strand"]))
    if not overlapping and not any(b[1] == b[0] for b in bl) and not tied:
        from inscripta.biocantor.gene.feature import FeatureInterval
        from inscripta.biocantor.gene.transcript import TranscriptInterval
        for cname, cls in (("feature", FeatureInterval), ("transcript", TranscriptInterval)):
            try:
                X = cls.from_chunk_relative_location(lifted)
            except (BioCantorException, ValueError) as e:
                ctx.fail(cname + ":from_chunk_relative_location_raises", repr(e)[:120])
                continue
            ctx.eq(cname + ":from_chunk_relative_location:chromosome_positions", rm.loc_positions(X.chromosome_location), inside)
            ctx.eq(cname + ":from_chunk_relative_location:chromosome_strand", X.strand.to_symbol(), L["strand"])
            ctx.eq(cname + ":from_chunk_relative_location:spliced_sequence", str(X.get_spliced_sequence()), rm.seq_image(G, inside, L["strand"]))
        # collection-level objects carry the SPAN of their members on the plus strand, lifted onto the chunk the same way: its
        # chunk coordinates are the window's own (counted from the other end on a reverse-complement chunk), it lifts back to the
        # chromosome span, and its reference sequence is the plus-strand chromosome sequence of the part inside the window
        from inscripta.biocantor.gene.collections import GeneInterval, FeatureIntervalCollection, AnnotationCollection
        lo_, hi_ = bl[0][0], max(b_[1] for b_ in bl)
        span_in = list(range(max(lo_, cs), min(hi_, ce)))
        st_ = [b_[0] for b_ in bl]
        en_ = [b_[1] for b_ in bl]
        try:
            colls = [("gene", GeneInterval([TranscriptInterval(st_, en_, STRAND[L["strand"]], parent_or_seq_chunk_parent=chunk_parent)], parent_or_seq_chunk_parent=chunk_parent)),
                     ("feature_collection", FeatureIntervalCollection([FeatureInterval(st_, en_, STRAND[L["strand"]], parent_or_seq_chunk_parent=chunk_parent)], parent_or_seq_chunk_parent=chunk_parent))]
            colls.append(("annotation_collection", AnnotationCollection(genes=[colls[0][1]], feature_collections=[colls[1][1]], parent_or_seq_chunk_parent=chunk_parent)))
            if spec.get("explicit_bounds"):
                a_, b_ = max(0, lo_ - spec["explicit_bounds"][0]), min(len(G), hi_ + spec["explicit_bounds"][1])
                colls.append(("annotation_collection_with_bounds", AnnotationCollection(genes=[colls[0][1]], start=a_, end=b_, parent_or_seq_chunk_parent=chunk_parent)))
        except (BioCantorException, ValueError) as e:
            ctx.fail("collection_on_chunk_raises", repr(e)[:120])
            colls = []
        for cname, C in colls:
            lo2, hi2 = (C.start, C.end)
            if cname in ("gene", "feature_collection"):
                ctx.eq(cname + ":span_is_the_members_span", [lo2, hi2], [lo_, hi_])
            elif cname == "annotation_collection":
                # without explicit bounds an annotation collection on a chunk stands for the chunk's window (documented)
                ctx.eq(cname + ":span_is_the_window", [lo2, hi2], [cs, ce])
            want = list(range(max(lo2, cs), min(hi2, ce)))
            crl = C.chunk_relative_location
            ctx.eq(cname + ":chunk_relative_span_positions", rm.loc_positions(crl), on_chunk(want, cs, ce, st1))
            ctx.eq(cname + ":chunk_relative_span_strand", rm.loc_strand(crl), st1)
            ctx.eq(cname + ":span_lifts_back_to_chromosome", rm.loc_positions(crl.lift_over_to_first_ancestor_of_type("chromosome")), want)
            ctx.eq(cname + ":reference_sequence", str(C.get_reference_sequence()), G[want[0]:want[-1] + 1])
            ctx.label("collection_span_on_chunk")
            if st1 == "-" and (want[0] - cs) != (ce - 1 - want[-1]):
                ctx.label("collection_span_on_minus_chunk_off_centre")
    ctx.true("chunk_has_chunk_ancestor", lifted.has_ancestor_of_type("sequence_chunk") and lifted.has_ancestor_of_type("chromosome"))
    back = lifted.lift_over_to_first_ancestor_of_type("chromosome")
    ctx.eq("chunk_roundtrip_positions", od(rm.loc_positions(back)), od(inside))
    ctx.eq("chunk_roundtrip_strand", rm.loc_strand(back), L["strand"])
    ctx.true("chunk_roundtrip_parent", back.parent is not None and back.parent.id == name and back.parent.sequence_type == "chromosome", repr(back.parent)[:100])
    same = lifted.lift_over_to_first_ancestor_of_type("sequence_chunk")
    ctx.eq("chunk_identity_lift", od(rm.loc_positions(same)), od(on_chunk(inside, cs, ce, st1)))
    # chunk -> second chunk (the composition chunk 1 -> chromosome -> chunk 2, whatever the two chunk strands)
    cs2, ce2 = spec["chunk2"]
    chunk2 = mk_chunk(cs2, ce2, st2)
    ctx.label("chunk_to_chunk")
    if st1 == "-" or st2 == "-":
        ctx.label("chunk_to_chunk_with_minus_chunk")
    inside2 = [p for p in inside if cs2 <= p < ce2]
    l2 = AbstractInterval.liftover_location_to_seq_chunk_parent(lifted, chunk2)
    if not inside2:
        ctx.true("chunk2_miss_is_empty", l2 is EmptyLocation(), repr(l2))
    elif ctx.true("chunk2_hit_not_empty", l2 is not EmptyLocation(), repr(l2)):
        cl2 = [(max(s_, cs, cs2), min(e_, ce, ce2)) for s_, e_ in ne_ if max(s_, cs, cs2) < min(e_, ce, ce2)]
        tied2 = tied or len({a for a, _ in cl2}) < len(cl2) or len({b for _, b in cl2}) < len(cl2)
        od2 = (lambda x: sorted(x)) if tied2 else (lambda x: list(x))
        ctx.eq("chunk2_relative_positions", od2(rm.loc_positions(l2)), od2(on_chunk(inside2, cs2, ce2, st2)))
        ctx.eq("chunk2_strand", rm.loc_strand(l2), rm.compose(L["strand"], st2))
        ctx.eq("chunk2_sequence", od2(str(l2.extract_sequence())), od2(rm.seq_image(G, inside2, L["strand"])))
        b2 = l2.lift_over_to_first_ancestor_of_type("chromosome")
        ctx.eq("chunk2_roundtrip_positions", od2(rm.loc_positions(b2)), od2(inside2))
        ctx.eq("chunk2_roundtrip_strand", rm.loc_strand(b2), L["strand"])
    # whole-chromosome parent: identity
    whole = seq_to_parent(G, alphabet=Alphabet.NT_STRICT, seq_id=name)
    lw = AbstractInterval.liftover_location_to_seq_chunk_parent(loc, whole)
    ctx.eq("whole_chromosome_positions", rm.loc_positions(lw), pos)
    ctx.eq("whole_chromosome_sequence", str(lw.extract_sequence()), rm.seq_image(G, pos, L["strand"]))


# ------------------------------------------------------------------------------------ requests outside the window


def check_overhang(spec, ctx):
    """a window (chunk) Parent that carries NO sequence cannot refuse an out-of-window child at construction time; the refusal has to
    happen when the child is lifted: a child reaching past the placement must raise, one inside must lift exactly"""
    _case[0] += 1
    tag = "o%d_" % _case[0]
    pl = spec["placement"]
    plen = sum(b[1] - b[0] for b in pl["blocks"])
    ppos = rm.positions(pl["blocks"], pl["strand"])
    levels = [("chromosome", None), ("sequence_chunk", pl)]
    top = Parent(id=tag + "chr", sequence_type="chromosome", location=mkloc(pl))
    chunk = Parent(id=tag + "win", sequence_type="sequence_chunk", parent=top)
    if spec.get("nested"):
        # a second window inside the first one
        a2, b2 = spec["nested"]
        inner_pl = {"blocks": [[a2, b2]], "strand": "+", "order": [0], "shift": 0, "compound": False}
        chunk = Parent(id=tag + "win2", sequence_type="contig", parent=Parent(id=tag + "win", sequence_type="sequence_chunk", location=mkloc(inner_pl), parent=top))
        ppos = ppos[a2:b2]
        plen = b2 - a2
        ctx.label("nested_windows")
    C = spec["child"]
    cb = rm.sorted_blocks(C["blocks"])
    child = mkloc(C, chunk)
    hi = max(b[1] for b in cb)
    inside = hi <= plen
    ctx.nt("child_overhangs_window" if not inside else "child_inside_window")
    if not inside and sum(b[1] - b[0] for b in cb) <= plen:
        ctx.label("overhanging_child_not_longer_than_window")
    try:
        lifted = child.lift_over_to_first_ancestor_of_type("chromosome")
    except (BioCantorException, ValueError):
        ctx.true("inside_child_refused", not inside, {"child": cb, "window_length": plen})
        ctx.refuse("outside_window")
        return
    if not inside:
        ctx.fail("overhanging_child_answered", {"child": cb, "window_length": plen, "got": repr(lifted)[:80]})
        return
    cpos = rm.positions(C["blocks"], C["strand"])
    ctx.eq("lifted_positions", rm.loc_positions(lifted), [ppos[i] for i in cpos])
    ctx.eq("lifted_strand", rm.loc_strand(lifted), rm.compose(C["strand"], pl["strand"]))


@st.composite
def strat_overhang(draw, tier="quick"):
    pl = draw(S.location_spec(max_k=3, allow_overlap=False, allow_empty=False, max_len=10, shift_prob=0, strands=["+", "+", "-"], max_start=40))
    plen = sum(b[1] - b[0] for b in pl["blocks"])
    sp = {"placement": pl}
    if plen >= 6 and draw(st.integers(0, 3)) == 0:
        a2 = draw(st.integers(0, plen - 4))
        sp["nested"] = [a2, draw(st.integers(a2 + 3, plen))]
        plen = sp["nested"][1] - sp["nested"][0]
    # child: mostly reaching past the end by a little, its own length often not larger than the window
    k = draw(st.sampled_from([1, 1, 2]))
    mode = draw(st.sampled_from(["inside", "over", "over", "beyond"]))
    if mode == "inside":
        e = draw(st.integers(1, plen))
    elif mode == "over":
        e = plen + draw(st.integers(1, 4))
    else:
        e = plen + draw(st.integers(5, 12))
    s_ = draw(st.integers(max(0, e - plen - 2), e - 1))
    blocks = [[s_, e]]
    if k == 2 and e - s_ >= 3:
        m = draw(st.integers(s_ + 1, e - 2))
        blocks = [[s_, m], [m + 1, e]]
    sp["child"] = {"blocks": blocks, "strand": draw(st.sampled_from(["+", "-"])), "order": list(range(len(blocks))), "shift": 0, "compound": draw(st.booleans())}
    return sp


# ------------------------------------------------------------------------------------ strategies


@st.composite
def strat_hierarchy(draw, tier="quick"):
    big = tier == "thorough"
    d = draw(st.sampled_from([1, 2, 2, 3, 3] if not big else [1, 2, 2, 3, 3, 3]))
    n0 = draw(st.integers(30, 60 if not big else 120))
    G = draw(S.dna(n0, n0))
    placements = []
    cur_len = n0
    for lvl in range(d):
        # placement of level lvl+1 on level lvl: non-overlapping blocks inside [0, cur_len)
        k = draw(st.sampled_from([1, 2, 2, 3]))
        k = min(k, max(1, cur_len // 3))
        cuts = sorted(draw(st.lists(st.integers(0, cur_len), min_size=2 * k, max_size=2 * k, unique=True))) if cur_len >= 2 * k else [0, cur_len]
        blocks = [[cuts[2 * i], cuts[2 * i + 1]] for i in range(len(cuts) // 2)]
        # make sure the next level is long enough to host something
        tot = sum(b[1] - b[0] for b in blocks)
        if tot < 4:
            blocks = [[0, cur_len]]
            tot = cur_len
        strand = draw(st.sampled_from(["+", "-"]))
        placements.append({"blocks": blocks, "strand": strand, "order": list(draw(st.permutations(range(len(blocks))))), "shift": 0,
                           "compound": draw(st.booleans())})
        cur_len = tot
    kc = draw(st.sampled_from([1, 1, 2, 3]))
    kc = min(kc, max(1, cur_len // 2))
    cuts = sorted(draw(st.lists(st.integers(0, cur_len), min_size=2 * kc, max_size=2 * kc, unique=True)))
    cb = [[cuts[2 * i], cuts[2 * i + 1]] for i in range(kc)]
    child = {"blocks": cb, "strand": draw(st.sampled_from(["+", "-"])), "order": list(draw(st.permutations(range(kc)))), "shift": 0,
             "compound": draw(st.booleans())}
    return {"genome": G, "placements": placements, "child": child, "no_chunk_level": draw(st.integers(0, 2)) == 0,
            "seq_knows_parent": [draw(st.integers(0, 3)) == 0 for _ in range(len(placements) + 1)],
            "type_case": draw(st.sampled_from([None, None, None, "upper", "title"])), "revcomp_level": draw(st.integers(0, 3)) == 0}


@st.composite
def strat_chunk(draw, tier="quick"):
    # staggered overlaps (the documented model of a programmed frameshift) in a quarter of the cases
    L = draw(S.location_spec(max_k=4, allow_overlap=draw(st.integers(0, 3)) == 0, allow_empty=draw(st.integers(0, 3)) == 0, max_len=8, shift_prob=0, strands=["+", "-"]))
    hi = max(b[1] for b in L["blocks"])
    lo = min(b[0] for b in L["blocks"])
    n = hi + draw(st.integers(0, 6))
    G = draw(S.dna(n, n))
    def window():
        a = draw(st.integers(0, n - 1))
        b = draw(st.integers(a + 1, n))
        mode = draw(st.integers(0, 5))
        if mode == 0:
            return [0, n]
        if mode == 1:
            return [lo, hi]
        return [a, b]
    return {"genome": G, "loc": L, "chunk": window(), "chunk2": window(), "explicit_bounds": draw(st.sampled_from([None, [0, 0], [1, 2], [3, 0]])), "loc_parent": draw(st.sampled_from(["none", "chrom_seq", "chrom_id"])),
            "chunk_strand": draw(st.sampled_from(["+", "+", "-"])), "chunk2_strand": draw(st.sampled_from(["+", "+", "-"]))}


PROP = Prop(
    pid="C04",
    legs=[
        Leg("hierarchy", check_hierarchy, strategy=strat_hierarchy, n_quick=700, n_thorough=6000, shards_quick=4,
            must_hit=["depth>=3", "two_minus_levels", "block_split_across_parent_blocks", "no_ancestor", "lift_by_sequence", "interval_object_on_hierarchy", "reverse_complement_of_a_multiblock_placement"],
            rule="hierarchies of depth 1..3 (4 levels incl. root), each level placed on its parent by a 1..3-block location on either strand, sequences extracted from the root; child locations of 1..3 blocks; every ancestor as target by type and by sequence identity; absent ancestors"),
        Leg("overhang", check_overhang, strategy=strat_overhang, n_quick=500, n_thorough=5000, shards_quick=4,
            must_hit=["child_overhangs_window", "child_inside_window", "overhanging_child_not_longer_than_window", "nested_windows"],
            rule="sequence-less window parents (1..3-block placement on either strand, optionally a second window nested inside) x child locations inside the window, reaching 1..4 bases past its end, or far beyond it (the child's own length often not larger than the window): lifting must refuse every child that leaves the window and lift the others exactly"),
        Leg("chunk", check_chunk, strategy=strat_chunk, n_quick=1200, n_thorough=10000, shards_quick=4,
            must_hit=["chunk_cuts_block", "chunk_misses", "chunk_to_chunk", "minus", "minus_chunk", "chunk_to_chunk_with_minus_chunk", "overlapping_blocks", "collection_span_on_minus_chunk_off_centre"],
            rule="chromosome locations x chunk windows x chunk strands (a chunk may be the reverse complement of its window) through seq_chunk_to_parent and liftover_location_to_seq_chunk_parent, lifted down, back up, and on to a second chunk of either strand; the span of a gene / feature collection / annotation collection (with and without explicit bounds) built on the same chunk"),
    ],
    rule="Oracle: composition of per-level position lists (PosModel) and SeqModel on the root. Non-trivial: depth>=2 with a minus level and a "
         "multi-block level, or a child block split across parent blocks, or a chunk cutting a block / missing the location.",
    assumptions=[
        "hierarchies are built in the idiom of the library's own tests: Parent(id, sequence_type, sequence, location=placement of the child level, parent=next ancestor)",
        "placements and child locations of the hierarchy leg have non-overlapping blocks (self-overlap: see C01 findings); the chunk leg also lifts locations with staggered overlapping blocks (the frameshift model), compared as multisets where clipping makes two blocks tie",
        "distinct ids per case (Parent objects are lru-cached on value; C10 attacks the cache)",
    ],
)
