"""C07 — a chunk-relative view is the chromosome view restricted to the chunk (twin differential)."""
import json

from hypothesis import strategies as st

import harness.compat  # noqa: F401
from harness import refmodel as rm
from harness import strategies as S
from harness.build import mktx, mkfeat, mkcds, mkgene, mkfc, mkcollection, chrom_parent, chunk_parent, STRAND
from inscripta.biocantor.location.location import Location
from harness.core import Leg, Prop
from inscripta.biocantor.exc import BioCantorException

from checks.c05 import model_translate, codon_triples


def norm_dict(d):
    return json.loads(json.dumps(d, default=str, sort_keys=True))


GUID_KEYS = ("gene_guid", "feature_collection_guid", "variant_collection_guid")


def strip_guids(d):
    """dictionary form without the collection-level identifiers (subject of finding F22)"""
    if isinstance(d, dict):
        return {k: strip_guids(v) for k, v in d.items() if k not in GUID_KEYS}
    if isinstance(d, list):
        return [strip_guids(x) for x in d]
    return d


def window_labels(ctx, blocks, cs, ce, strand):
    ne = rm.sorted_blocks(blocks)
    inside_any = any(max(s, cs) < min(e, ce) for s, e in ne)
    if any(s < cs < e or s < ce < e for s, e in ne):
        ctx.label("cuts_exon")
        if strand == "-":
            ctx.label("cuts_exon&minus")
    if not inside_any:
        ctx.label("misses")
        if ne[0][0] < cs and ce < ne[-1][1]:
            ctx.label("chunk_inside_intron")
    return inside_any


def check_interval_view(ctx, A, B, blocks, strand, cs, ce, g, what, cst="+"):
    """A on whole chromosome, B on chunk [cs,ce) (cst "-": the chunk is the reverse complement of its window)"""
    pos = rm.positions(blocks, strand)
    dn = (lambda p: p - cs) if cst == "+" else (lambda p: ce - 1 - p)
    inside = [p for p in pos if cs <= p < ce]
    # (a) chromosome-level answers
    ctx.eq(what + ":chromosome_blocks", rm.loc_blocks(B.chromosome_location), rm.loc_blocks(A.chromosome_location))
    ctx.eq(what + ":chromosome_strand", rm.loc_strand(B.chromosome_location), strand)
    ctx.eq(what + ":to_dict", norm_dict(B.to_dict()), norm_dict(A.to_dict()))
    ctx.eq(what + ":guid", str(B.guid), str(A.guid))
    ctx.eq(what + ":identifiers", sorted(map(str, B.identifiers)), sorted(map(str, A.identifiers)))
    ctx.eq(what + ":len", len(B), len(A))
    if hasattr(B, "blocks"):
        ctx.eq(what + ":blocks_are_chromosome_blocks", [(b_.start, b_.end) for b_ in B.blocks], rm.loc_blocks(A.chromosome_location))
    ctx.eq(what + ":start_end", (B.start, B.end), (A.start, A.end))
    if hasattr(A, "bin"):
        ctx.eq(what + ":bin", B.bin, A.bin)
    # (b) chunk-relative location
    crl = B.chunk_relative_location
    if not inside:
        ctx.true(what + ":miss_is_empty", crl.is_empty and len(crl) == 0, repr(crl))
        ctx.eq(what + ":miss_chunk_relative_size", B.chunk_relative_size, 0)
        return inside
    if not ctx.true(what + ":hit_not_empty", not crl.is_empty, repr(crl)):
        return inside
    ctx.eq(what + ":chunk_relative_positions", rm.loc_positions(crl), [dn(p) for p in inside])
    # the interval itself answers the ancestor questions of the location it carries: it sits on the chunk, the twin does not
    try:
        anc = B.first_ancestor_of_type("sequence_chunk")
        ctx.eq(what + ":first_ancestor_is_the_chunk", str(anc.sequence), g[cs:ce] if cst == "+" else rm.revcomp(g[cs:ce]))
        ctx.eq(what + ":ancestor_flags", (B.has_ancestor_of_type("sequence_chunk"), B.has_ancestor_of_type("chromosome"), A.has_ancestor_of_type("sequence_chunk")), (True, True, False))
    except BioCantorException as e:
        ctx.fail(what + ":first_ancestor_of_type_raises", repr(e)[:100])
    ctx.eq(what + ":chunk_relative_strand", rm.loc_strand(crl), rm.compose(strand, cst))
    back = B.lift_over_to_first_ancestor_of_type("chromosome")
    ctx.eq(what + ":lifted_back", rm.loc_positions(back), inside)
    ctx.eq(what + ":chunk_relative_size", B.chunk_relative_size, len(inside))
    # every chunk-relative accessor describes that same restricted location
    cpos = [dn(p) for p in inside]
    ctx.eq(what + ":chunk_relative_start_end", (B.chunk_relative_start, B.chunk_relative_end), (min(cpos), max(cpos) + 1))
    ctx.eq(what + ":chunk_relative_strand_accessor", B.chunk_relative_strand.to_symbol(), rm.compose(strand, cst))
    ctx.eq(what + ":chunk_relative_blocks", sorted(p_ for b_ in B.chunk_relative_blocks for p_ in range(b_.start, b_.end)), sorted(cpos))
    sp_ = B.chunk_relative_span
    ctx.eq(what + ":chunk_relative_span", (sp_.start, sp_.end), (min(cpos), max(cpos) + 1))
    gl = B.chunk_relative_gaps_location
    ctx.eq(what + ":chunk_relative_gaps", sorted(rm.posset(rm.loc_blocks(gl))) if not gl.is_empty else [], sorted(set(range(min(cpos), max(cpos) + 1)) - set(cpos)))
    for i_, c_ in enumerate(cpos):
        ctx.eq(what + ":chunk_relative_pos_to_feature", _outcome(B.chunk_relative_pos_to_feature, c_), ["value", i_], extra=c_)
        ctx.eq(what + ":feature_pos_to_chunk_relative", _outcome(B.feature_pos_to_chunk_relative, i_), ["value", c_], extra=i_)
    whole = _outcome(B.chunk_relative_interval_to_feature, min(cpos), max(cpos) + 1, STRAND[rm.compose(strand, cst)])
    ctx.eq(what + ":chunk_relative_interval_to_feature", [whole[0], sorted(whole[1]) if whole[0] == "loc" else whole[1]], ["loc", list(range(len(cpos)))])
    back_ = _outcome(B.feature_interval_to_chunk_relative, 0, len(cpos), STRAND["+"])
    ctx.eq(what + ":feature_interval_to_chunk_relative", back_[:2], ["loc", cpos])
    # the transcript-named wrappers and the block accessor of the chunk view answer the same
    if hasattr(B, "chunk_relative_interval_to_transcript"):
        ctx.eq(what + ":chunk_relative_interval_to_transcript", _outcome(B.chunk_relative_interval_to_transcript, min(cpos), max(cpos) + 1, STRAND[rm.compose(strand, cst)]), whole)
        ctx.eq(what + ":transcript_interval_to_chunk_relative", _outcome(B.transcript_interval_to_chunk_relative, 0, len(cpos), STRAND["+"])[:2], ["loc", cpos])
    ctx.eq(what + ":relative_blocks", [(b_.start, b_.end) for b_ in B.relative_blocks], [(b_.start, b_.end) for b_ in B.chunk_relative_blocks])
    # (b2) the chunk-relative dictionary form lists the chunk-relative blocks
    try:
        dr = B.to_dict(chromosome_relative_coordinates=False)
        key = "exon" if "exon_starts" in dr else "interval"
        cb = sorted((dn(p), dn(p) + 1) for p in inside)
        ctx.eq(what + ":chunk_relative_dict_blocks", sorted(rm.posset(list(zip(dr[key + "_starts"], dr[key + "_ends"])))), sorted(p_ for p_, _ in cb))
        ctx.true(what + ":chunk_relative_dict_starts_before_ends", all(a < b for a, b in zip(dr[key + "_starts"], dr[key + "_ends"])), [dr[key + "_starts"], dr[key + "_ends"]])
        # ... on the strand the interval has in chunk coordinates, so that the dictionary rebuilt on the chunk sequence alone
        # (the chunk taken as a chromosome of its own) is the same molecule
        ctx.eq(what + ":chunk_relative_dict_strand", dr["strand"], {"+": "PLUS", "-": "MINUS"}[rm.compose(strand, cst)])
        chunk_seq = g[cs:ce] if cst == "+" else rm.revcomp(g[cs:ce])
        try:
            C = type(B).from_dict(dr, chrom_parent(chunk_seq))
            ctx.eq(what + ":chunk_relative_dict_rebuilt_spliced_sequence", str(C.get_spliced_sequence()), str(B.get_spliced_sequence()))
        except (BioCantorException, ValueError) as e:
            ctx.fail(what + ":chunk_relative_dict_rebuild_raises", repr(e)[:120])
        if dr.get("cds_starts"):
            ctx.true(what + ":chunk_relative_dict_cds_starts_before_ends", all(a <= b for a, b in zip(dr["cds_starts"], dr["cds_ends"])), [dr["cds_starts"], dr["cds_ends"]])
            ctx.true(what + ":chunk_relative_dict_cds_inside_exons", rm.posset(list(zip(dr["cds_starts"], dr["cds_ends"]))) <= rm.posset(list(zip(dr[key + "_starts"], dr[key + "_ends"]))),
                     [dr["cds_starts"], dr["cds_ends"]])
    except (BioCantorException, ValueError) as e:
        # refusing is tolerated only when a part that the dictionary must list (the CDS) has no base on the chunk
        cds_obj = getattr(B, "cds", None)
        cds_absent = cds_obj is not None and cds_obj.chunk_relative_location.is_empty
        if cds_absent:
            ctx.refuse("chunk_relative_dict_refused_cds_outside_chunk")
        else:
            ctx.fail(what + ":chunk_relative_dict_raises", repr(e)[:120])
    # (c) sequences
    ctx.eq(what + ":spliced_sequence", str(B.get_spliced_sequence()), rm.seq_image(g, inside, strand))
    lo, hi = min(inside), max(inside) + 1
    ctx.eq(what + ":reference_sequence", str(B.get_reference_sequence()), g[lo:hi])
    ctx.eq(what + ":genomic_sequence", str(B.get_genomic_sequence()), g[lo:hi] if strand == "+" else rm.revcomp(g[lo:hi]))
    # restricted to the chunk, the whole-chromosome twin gives the same stretch
    full = str(A.get_spliced_sequence())
    idx = [i for i, p in enumerate(pos) if cs <= p < ce]
    ctx.eq(what + ":spliced_is_stretch_of_whole", str(B.get_spliced_sequence()), full[idx[0]: idx[-1] + 1])
    return inside


def check_cds_view(ctx, A, B, spec, cs, ce, g, what="cds", cst="+"):
    bl, strand, frames = spec["blocks"], spec["strand"], spec["frames"]
    up = (lambda pc: pc + cs) if cst == "+" else (lambda pc: ce - 1 - pc)
    model, degenerate = rm.frame_walk(bl, strand, frames)
    if degenerate or not model:
        ctx.label("degenerate_cds")
        return
    inside_codons = [c for c in model if all(cs <= p < ce for p in c)]
    lo5 = bl[0][0] if strand == "+" else bl[-1][1]
    cut5 = (cs > bl[0][0]) if strand == "+" else (ce < bl[-1][1])
    if cut5 and spec["offset"]:
        ctx.label("cuts_cds_5p&offset!=0")
    if cut5:
        ctx.label("cuts_cds_5p")
    # chromosome level unchanged
    ctx.eq(what + ":num_codons", B.num_codons, len(model))
    ctx.eq(what + ":chromosome_codons", codon_triples(B.chromosome_codon_locations), model)
    ctx.eq(what + ":chromosome_codons_twin", codon_triples(A.chromosome_codon_locations), model)
    ctx.eq(what + ":frames", [f.value for f in B.frames], frames)
    any_inside = any(cs <= p < ce for b in bl for p in range(b[0], b[1]))
    retained = [p for c in model for p in c]
    only_skipped = any_inside and not any(cs <= p < ce for p in retained)
    if only_skipped:
        ctx.label("chunk_covers_only_skipped_bases")
    # (d) chunk-relative codons
    try:
        got = [tuple(up(p) for p in t) for t in codon_triples(B.chunk_relative_codon_locations)]
    except BioCantorException as e:
        ctx.fail(what + ":chunk_relative_codons_raise", {"exc": repr(e)[:120], "any_inside": any_inside})
        return
    except ValueError as e:
        ctx.fail(what + ":chunk_relative_codons_raise_valueerror", {"exc": repr(e)[:120], "any_inside": any_inside})
        return
    ctx.eq(what + ":chunk_relative_codons", got, inside_codons, extra={"chunk": [cs, ce]})
    # (the deprecated alias scans the same codons)
    try:
        import warnings as _w
        with _w.catch_warnings():
            _w.simplefilter("ignore")
            got_alias = [tuple(up(p) for p in t) for t in codon_triples(mkcds(spec, chunk_parent(g, cs, ce, strand=cst)).scan_codon_locations())]
        ctx.eq(what + ":chunk_relative_codons", got_alias, inside_codons, extra={"chunk": [cs, ce], "via": "scan_codon_locations"})
    except (BioCantorException, ValueError) as e:
        ctx.fail(what + ":chunk_relative_codons_raise", {"exc": repr(e)[:120], "via": "scan_codon_locations"})
    ctx.eq(what + ":num_chunk_relative_codons", B.num_chunk_relative_codons, len(inside_codons))
    # the same questions in the other order on a fresh object (chunk-relative view first, chromosome-level answers after it)
    try:
        B3 = mkcds(spec, chunk_parent(g, cs, ce, strand=cst))
        n3 = B3.num_chunk_relative_codons
        got3 = [tuple(up(p) for p in t) for t in codon_triples(B3.chunk_relative_codon_locations)]
        ctx.eq(what + ":chunk_view_first:num_chunk_relative_codons", n3, len(inside_codons))
        ctx.eq(what + ":chunk_view_first:chunk_relative_codons", got3, inside_codons)
        ctx.eq(what + ":chunk_view_first:num_codons", B3.num_codons, len(model))
        ctx.eq(what + ":chunk_view_first:chromosome_codons", codon_triples(B3.chromosome_codon_locations), model)
        if any_inside:
            # ... and the sequence of the object whose codon locations were read first is still the codons inside the window
            seqs3 = [rm.seq_image(g, c, strand).upper() for c in inside_codons]
            ctx.eq(what + ":chunk_view_first:extract_sequence", str(B3.extract_sequence()).upper(), "".join(seqs3))
            ctx.eq(what + ":chunk_view_first:extract_sequence_again", str(B3.extract_sequence()).upper(), "".join(seqs3))
            if cst == "-":
                ctx.label("codons_read_before_sequence_on_minus_chunk")
    except BioCantorException as e:
        ctx.fail(what + ":chunk_view_first_raises", {"exc": repr(e)[:120], "any_inside": any_inside})
    # windowed scans of the chunk-relative view: a window in CHROMOSOME coordinates (documented) on an object built on the chunk
    # yields the codons of the walk that lie on the chunk and inside the window (touching it when the window is expanded to whole
    # codons) - "the resulting codons will maintain frame"
    nonov = all(bl[i][1] <= bl[i + 1][0] for i in range(len(bl) - 1))
    if any_inside and nonov and not spec.get("frameshift"):
        lo_, hi_ = bl[0][0], bl[-1][1]
        for ws, we in spec.get("windows") or [(lo_ + 1, hi_), (lo_, max(lo_ + 1, hi_ - 2)), (lo_ + 2, max(lo_ + 3, hi_ - 1)), (cs, ce), (lo_ + 4, hi_ + 3)]:
            for expand in (False, True):
                if expand:
                    exp_w = [c for c in inside_codons if any(ws <= p < we for p in c)]
                else:
                    exp_w = [c for c in inside_codons if all(ws <= p < we for p in c)]
                try:
                    B4 = mkcds(spec, chunk_parent(g, cs, ce, strand=cst))
                    got_w = [tuple(up(p) for p in t) for t in codon_triples(B4.scan_chunk_relative_codon_locations(ws, we, expand))]
                except (BioCantorException, ValueError) as e:
                    # a documented refusal is acceptable only for a window holding no base of any codon on the chunk
                    if any(ws <= p < we for c in inside_codons for p in c):
                        ctx.fail(what + ":windowed_chunk_relative_codons_raise", {"window": [ws, we], "expand": expand, "exc": repr(e)[:100]})
                    continue
                ctx.eq(what + ":windowed_chunk_relative_codons[expand=%d]" % expand, got_w, exp_w, extra={"chunk": [cs, ce], "window": [ws, we]})
                if exp_w and len(exp_w) < len(inside_codons):
                    ctx.label("window_inside_chunk_view")
    # merging the blocks of a CDS is a chromosome-level operation: asked of the object on the chunk it gives the CDS the
    # whole-chromosome twin gives, seen through the same chunk
    for name in ("optimize_blocks", "optimize_and_combine_blocks"):
        try:
            mA = getattr(A, name)()
        except (BioCantorException, ValueError):
            continue
        try:
            mB = getattr(mkcds(spec, chunk_parent(g, cs, ce, strand=cst)), name)()
        except (BioCantorException, ValueError) as e:
            ctx.fail(what + ":" + name + "_on_chunk_raises", repr(e)[:120])
            continue
        ctx.eq(what + ":" + name + ":chromosome_blocks", rm.loc_blocks(mB.chromosome_location), rm.loc_blocks(mA.chromosome_location))
        ctx.eq(what + ":" + name + ":frames", [f.value for f in mB.frames], [f.value for f in mA.frames])
        if any_inside:
            ctx.true(what + ":" + name + ":stays_on_the_chunk", mB.is_chunk_relative, repr(mB)[:80])
        try:
            cod_a = codon_triples(mA.chromosome_codon_locations)
            ctx.eq(what + ":" + name + ":chromosome_codons", codon_triples(mB.chromosome_codon_locations), cod_a)
            if nonov_ := all(bl[i][1] <= bl[i + 1][0] for i in range(len(bl) - 1)):
                ctx.eq(what + ":" + name + ":chunk_relative_codons", [tuple(up(p) for p in t) for t in codon_triples(mB.chunk_relative_codon_locations)],
                       [c for c in cod_a if all(cs <= p < ce for p in c)])
        except (BioCantorException, ValueError) as e:
            ctx.fail(what + ":" + name + ":codons_raise", repr(e)[:120])
        ctx.label("cds_merged_on_chunk")
    seqs = [rm.seq_image(g, c, strand).upper() for c in inside_codons]
    B2 = mkcds(spec, chunk_parent(g, cs, ce, strand=cst))
    if any_inside:
        try:
            ctx.eq(what + ":extract_sequence", str(B2.extract_sequence()).upper(), "".join(seqs))
            exp = model_translate(seqs, "DEFAULT", False, True)
            if exp != "ValueError":
                p = str(B2.translate())
                ctx.true(what + ":translate", len(p) == len(exp) and all(a in o for a, o in zip(p, exp)), {"got": p, "exp": ["".join(sorted(o)) for o in exp]})
        except BioCantorException as e:
            ctx.fail(what + ":extract_sequence_raises", {"exc": repr(e)[:120]})
    # chunk-relative frames describe the same reading frame (not claimed with a programmed frameshift: documented loss)
    if any_inside and not spec.get("frameshift"):
        try:
            cf = [f.value for f in B.chunk_relative_frames]
            cb = [(b.start, b.end) for b in B.chunk_relative_blocks]
        except BioCantorException as e:
            ctx.fail(what + ":chunk_relative_frames_raise", repr(e)[:100])
            return
        if len(cf) == len(cb):
            cod2, deg2 = rm.frame_walk([list(b) for b in cb], rm.compose(strand, cst), cf)
            if not deg2:
                ctx.eq(what + ":chunk_relative_frames_model", [tuple(up(p) for p in c) for c in cod2], inside_codons, extra={"frames": cf, "blocks": cb})
        else:
            ctx.fail(what + ":chunk_relative_frames_length", {"frames": cf, "blocks": cb})


def _outcome(fn, *a):
    try:
        r = fn(*a)
    except Exception as e:  # compared between the twins by class
        return ["raises", type(e).__name__]
    if isinstance(r, Location):
        return ["loc", rm.loc_positions(r) if not r.is_empty else [], rm.loc_strand(r) if not r.is_empty else None]
    return ["value", r]


def check_conversions(ctx, A, B, kind, blocks, strand, cds_blocks, cs, ce, what):
    """chromosome-level coordinate conversions answer the same on the chunk twin as on the whole-chromosome twin, for every
    position (inside the chunk or not).  (The chunk_relative_* conversions are relative to the *sliced* interval by design
    and are not compared.)"""
    T = rm.positions(blocks, strand)
    lo, hi = min(T), max(T) + 1
    n = len(T)
    per_pos = {"feat": ["sequence_pos_to_feature"], "tx": ["sequence_pos_to_transcript", "sequence_pos_to_feature"]}[kind]
    per_rel = {"feat": ["feature_pos_to_sequence"], "tx": ["transcript_pos_to_sequence", "feature_pos_to_sequence"]}[kind]
    for name in per_pos:
        for p in range(max(0, lo - 1), hi + 1):
            ctx.eq("%s:conversion_same_on_chunk:%s" % (what, name), _outcome(getattr(B, name), p), _outcome(getattr(A, name), p), extra=p)
    for name in per_rel:
        for t in range(-1, n + 1):
            ctx.eq("%s:conversion_same_on_chunk:%s" % (what, name), _outcome(getattr(B, name), t), _outcome(getattr(A, name), t), extra=t)
    ivs = [(lo, hi), (lo, lo + 1), (hi - 1, hi), (max(0, lo - 1), hi + 1), (cs, ce), (max(lo, cs), max(lo, cs) + 1)]
    iv_pos = {"feat": ["sequence_interval_to_feature"], "tx": ["sequence_interval_to_transcript"]}[kind]
    iv_rel = {"feat": ["feature_interval_to_sequence"], "tx": ["transcript_interval_to_sequence"]}[kind]
    for name in iv_pos:
        for a, b in ivs:
            if 0 <= a < b:
                for q in "+-":
                    ctx.eq("%s:conversion_same_on_chunk:%s" % (what, name), _outcome(getattr(B, name), a, b, STRAND[q]), _outcome(getattr(A, name), a, b, STRAND[q]), extra=[a, b, q])
    for name in iv_rel:
        for a, b in ((0, n), (0, 1), (n - 1, n), (n // 2, n)):
            if 0 <= a < b:
                for q in "+-":
                    ctx.eq("%s:conversion_same_on_chunk:%s" % (what, name), _outcome(getattr(B, name), a, b, STRAND[q]), _outcome(getattr(A, name), a, b, STRAND[q]), extra=[a, b, q])
    if kind == "tx" and cds_blocks:
        C = rm.positions(cds_blocks, strand)
        m = len(C)
        if any(not (cs <= p < ce) for p in C) and any(cs <= p < ce for p in C):
            ctx.label("chunk_cuts_cds:conversions")
        for name in ("sequence_pos_to_cds",):
            for p in range(max(0, lo - 1), hi + 1):
                ctx.eq("%s:conversion_same_on_chunk:%s" % (what, name), _outcome(getattr(B, name), p), _outcome(getattr(A, name), p), extra=p)
        for p in range(max(0, lo - 1), hi + 1):
            ctx.eq(what + ":conversion_same_on_chunk:cds.sequence_pos_to_amino_acid", _outcome(B.cds.sequence_pos_to_amino_acid, p), _outcome(A.cds.sequence_pos_to_amino_acid, p), extra=p)
        for name in ("cds_pos_to_sequence", "cds_pos_to_transcript"):
            for c in range(-1, m + 1):
                ctx.eq("%s:conversion_same_on_chunk:%s" % (what, name), _outcome(getattr(B, name), c), _outcome(getattr(A, name), c), extra=c)
        for t in range(-1, n + 1):
            ctx.eq(what + ":conversion_same_on_chunk:transcript_pos_to_cds", _outcome(B.transcript_pos_to_cds, t), _outcome(A.transcript_pos_to_cds, t), extra=t)
        for a, b in ((0, m), (0, 1), (m - 1, m), (m // 2, m)):
            if 0 <= a < b:
                ctx.eq(what + ":conversion_same_on_chunk:cds_interval_to_sequence", _outcome(B.cds_interval_to_sequence, a, b, STRAND["+"]), _outcome(A.cds_interval_to_sequence, a, b, STRAND["+"]), extra=[a, b])
        for a, b in ivs:
            if 0 <= a < b:
                ctx.eq(what + ":conversion_same_on_chunk:sequence_interval_to_cds", _outcome(B.sequence_interval_to_cds, a, b, STRAND["+"]), _outcome(A.sequence_interval_to_cds, a, b, STRAND["+"]), extra=[a, b])


def _from_location(ctx, A, what, cls, g):
    """the other alternative constructor: from a location on the whole chromosome (with the CDS object of a coding transcript). It is
    the object the ordinary constructor builds from the same blocks: same identifier, same dictionary form, same sequence; and it
    refuses a location that sits on a sequence chunk (documented)"""
    loc = A.chromosome_location
    try:
        kw = {"cds": A.cds} if getattr(A, "cds", None) is not None else {}
        X = cls.from_location(loc, **kw)
        st_, en_ = [b_.start for b_ in loc.blocks], [b_.end for b_ in loc.blocks]
        if kw:
            T = cls(st_, en_, loc.strand, cds_starts=list(A.cds._genomic_starts), cds_ends=list(A.cds._genomic_ends), cds_frames=list(A.cds.frames), parent_or_seq_chunk_parent=loc.parent)
        else:
            T = cls(st_, en_, loc.strand, parent_or_seq_chunk_parent=loc.parent)
    except (BioCantorException, ValueError) as e:
        ctx.fail(what + ":from_location_raises", repr(e)[:120])
        return
    ctx.eq(what + ":from_location:same_guid_as_constructor", str(X.guid), str(T.guid))
    ctx.eq(what + ":from_location:same_dict_as_constructor", norm_dict(X.to_dict()), norm_dict(T.to_dict()))
    ctx.eq(what + ":from_location:chromosome_blocks", rm.loc_blocks(X.chromosome_location), rm.loc_blocks(loc))
    ctx.eq(what + ":from_location:spliced_sequence", str(X.get_spliced_sequence()), str(A.get_spliced_sequence()))
    if kw:
        ctx.eq(what + ":from_location:cds_sequence", str(X.get_cds_sequence()) if X.cds else None, str(A.get_cds_sequence()))
    ctx.label("from_location")


def _from_chunk_relative(ctx, B, what, cls, blocks, strand, cs, ce, g):
    """the documented constructor from a location on the chunk: the object it builds sits on the chromosome where that location
    lifts to - same bases, same chromosome strand, same spliced sequence"""
    crl = B.chunk_relative_location
    if crl.is_empty:
        return
    try:
        X = cls.from_chunk_relative_location(crl)
    except (BioCantorException, ValueError) as e:
        ctx.fail(what + ":from_chunk_relative_location_raises", repr(e)[:120])
        return
    inside = [p for p in rm.positions(blocks, strand) if cs <= p < ce]
    ctx.eq(what + ":from_chunk_relative_location:chromosome_positions", rm.loc_positions(X.chromosome_location), inside)
    ctx.eq(what + ":from_chunk_relative_location:chromosome_strand", X.strand.to_symbol(), strand)
    ctx.eq(what + ":from_chunk_relative_location:spliced_sequence", str(X.get_spliced_sequence()), rm.seq_image(g, inside, strand))
    # ... and it is the same object (identifier, dictionary form, container types included) as one built the ordinary way from the
    # blocks that lie on the chunk
    bl_in = [(max(s_, cs), min(e_, ce)) for s_, e_ in sorted(map(tuple, blocks)) if max(s_, cs) < min(e_, ce)]
    if all(bl_in[i][1] <= bl_in[i + 1][0] for i in range(len(bl_in) - 1)):
        try:
            T = cls([b_[0] for b_ in bl_in], [b_[1] for b_ in bl_in], X.strand, parent_or_seq_chunk_parent=crl.parent)
            dx, dt = X.to_dict(), T.to_dict()
            ctx.eq(what + ":from_chunk_relative_location:same_guid_as_constructor", str(X.guid), str(T.guid))
            ctx.eq(what + ":from_chunk_relative_location:same_dict_as_constructor", {k_: (type(v_).__name__, v_ if not isinstance(v_, tuple) else list(v_)) for k_, v_ in dx.items() if k_.endswith(("_starts", "_ends", "strand"))},
                   {k_: (type(v_).__name__, v_) for k_, v_ in dt.items() if k_.endswith(("_starts", "_ends", "strand"))})
        except (BioCantorException, ValueError) as e:
            ctx.fail(what + ":from_chunk_relative_location:twin_raises", repr(e)[:120])
    ctx.label("from_chunk_relative_location")


def _other_question_order(ctx, B2, what, blocks, strand, cs, ce, g):
    """a second object of the same spec asked in the other order: the whole-span sequences first, the spliced one afterwards"""
    inside = [p for p in rm.positions(blocks, strand) if cs <= p < ce]
    if not inside:
        return
    try:
        B2.get_genomic_sequence()
        B2.get_reference_sequence()
        ctx.eq(what + ":spliced_sequence_asked_after_genomic", str(B2.get_spliced_sequence()), rm.seq_image(g, inside, strand))
    except (BioCantorException, ValueError) as e:
        ctx.fail(what + ":sequences_in_other_order_raise", repr(e)[:120])


def check_view(spec, ctx):
    kind = spec["kind"]
    g = spec["genome"]
    cs, ce = spec["chunk"]
    cst = spec.get("chunk_strand", "+")
    idiom = spec.get("chunk_idiom", "api")
    o = spec["obj"]
    d_ = spec.get("decoy_shift")
    if d_ and 0 <= cs + d_ and ce + d_ <= len(g) and g[cs + d_:ce + d_] == g[cs:ce]:
        # another chunk of the same chromosome with the very same bases but a different window was used just before (repeats,
        # low-complexity sequence): value-keyed caches must not hand its Parent out for this one
        decoy = chunk_parent(g, cs + d_, ce + d_, strand=cst, idiom=idiom)
        try:
            D = {"feat": mkfeat, "cds": mkcds, "tx": mktx, "gene": mkgene, "fc": mkfc, "collection": mkcollection}[kind](o, decoy)
            getattr(D, "chunk_relative_location", None)
        except Exception:
            pass
        ctx.label("decoy_chunk_with_same_bases")
    if idiom == "docstring":
        ctx.label("chunk_parent_docstring_idiom")
    PA, PB = chrom_parent(g), chunk_parent(g, cs, ce, strand=cst, idiom=idiom)
    if cst == "-":
        ctx.label("minus_strand_chunk")
    if cs > 0:
        ctx.label("chunk_start>0")
    if kind == "feat":
        A, B = mkfeat(o, PA), mkfeat(o, PB)
        window_labels(ctx, o["blocks"], cs, ce, o["strand"])
        ctx.nt()
        check_interval_view(ctx, A, B, o["blocks"], o["strand"], cs, ce, g, "feature", cst)
        check_conversions(ctx, A, B, "feat", o["blocks"], o["strand"], None, cs, ce, "feature")
        _from_chunk_relative(ctx, B, "feature", type(B), o["blocks"], o["strand"], cs, ce, g)
        _from_location(ctx, A, "feature", type(A), g)
        _other_question_order(ctx, mkfeat(o, PB), "feature", o["blocks"], o["strand"], cs, ce, g)
        Bp = A.liftover_to_parent_or_seq_chunk_parent(PB)
        ctx.eq("feature:relifted_equals_built", (norm_dict(Bp.to_dict()), rm.loc_blocks(Bp.chunk_relative_location) if not Bp.chunk_relative_location.is_empty else []),
               (norm_dict(B.to_dict()), rm.loc_blocks(B.chunk_relative_location) if not B.chunk_relative_location.is_empty else []))
    elif kind == "cds":
        A, B = mkcds(o, PA), mkcds(o, PB)
        window_labels(ctx, o["blocks"], cs, ce, o["strand"])
        ctx.nt()
        ctx.eq("cds:to_dict", norm_dict(B.to_dict()), norm_dict(A.to_dict()))
        ctx.eq("cds:guid", str(B.guid), str(A.guid))
        check_cds_view(ctx, A, B, o, cs, ce, g, cst=cst)
    elif kind == "tx":
        A, B = mktx(o, PA), mktx(o, PB)
        window_labels(ctx, o["exons"], cs, ce, o["strand"])
        ctx.nt()
        inside = check_interval_view(ctx, A, B, o["exons"], o["strand"], cs, ce, g, "transcript", cst)
        check_conversions(ctx, A, B, "tx", o["exons"], o["strand"], o.get("cds"), cs, ce, "transcript")
        if "cds" in o:
            cspec = {"blocks": o["cds"], "strand": o["strand"], "frames": o["frames"], "offset": o["offset"], "frameshift": o.get("frameshift")}
            cds_inside = any(cs <= p < ce for b in o["cds"] for p in range(b[0], b[1]))
            if not cds_inside:
                ctx.label("cds_outside_chunk")
                # (e) chromosome-level CDS description is kept (to_dict/guid compared above)
            cl_ = [(max(b[0], cs), min(b[1], ce)) for b in o["cds"] if max(b[0], cs) < min(b[1], ce)]
            clip_tie = bool(o.get("cds_overlapped")) and (len({a for a, _ in cl_}) < len(cl_) or len({b for _, b in cl_}) < len(cl_))
            if clip_tie:
                # the chunk clips two overlapping CDS blocks to remainders that tie on start or end: their 5'->3' order is not
                # something a Location represents (C01 F1 / C03 F25) - the codon view of such a window is not compared
                ctx.label("chunk_clips_overlap_to_a_tie(skipped)")
            if B.cds is not None and A.cds is not None:
                ctx.eq("transcript:cds_guid", str(B.cds.guid), str(A.cds.guid))
                if not clip_tie:
                    check_cds_view(ctx, A.cds, B.cds, cspec, cs, ce, g, "transcript_cds", cst=cst)
        _from_chunk_relative(ctx, B, "transcript", type(B), o["exons"], o["strand"], cs, ce, g)
        _from_location(ctx, A, "transcript", type(A), g)
        _other_question_order(ctx, mktx(o, PB), "transcript", o["exons"], o["strand"], cs, ce, g)
        Bp = A.liftover_to_parent_or_seq_chunk_parent(PB)
        ctx.eq("transcript:relifted_to_dict", norm_dict(Bp.to_dict()), norm_dict(B.to_dict()))
        # ... and back: the object on the chunk lifted to the whole chromosome is the whole-chromosome twin
        try:
            Ap = B.liftover_to_parent_or_seq_chunk_parent(PA)
            ctx.eq("transcript:lifted_back_to_chromosome:to_dict", norm_dict(Ap.to_dict()), norm_dict(A.to_dict()))
            ctx.eq("transcript:lifted_back_to_chromosome:spliced_sequence", str(Ap.get_spliced_sequence()), str(A.get_spliced_sequence()))
        except (BioCantorException, ValueError) as e:
            ctx.fail("transcript:lift_back_to_chromosome_raises", repr(e)[:120])
    elif kind == "gene":
        A, B = mkgene(o, PA), mkgene(o, PB)
        ctx.nt("collection_on_chunk")
        ctx.eq("gene:to_dict_without_gene_guid", strip_guids(norm_dict(B.to_dict())), strip_guids(norm_dict(A.to_dict())))
        ctx.eq("gene:guid", str(B.guid), str(A.guid))
        ctx.eq("gene:span", (B.start, B.end), (A.start, A.end))
        # which member is the primary one is a chromosome-level answer (flag, CDS length, spliced length, position in the list)
        ctx.eq("gene:primary_transcript", B.transcripts.index(B.get_primary_transcript()), A.transcripts.index(A.get_primary_transcript()))
        if any(tb.chunk_relative_location.is_empty for tb in B.transcripts) and not all(tb.chunk_relative_location.is_empty for tb in B.transcripts):
            ctx.label("chunk_misses_some_members")
        # the merged forms are built from the members' chromosome blocks: the same blocks whatever the chunk holds
        for nm_ in ("get_merged_transcript", "get_merged_feature", "get_merged_cds"):
            try:
                ma = getattr(A, nm_)()
            except (BioCantorException, ValueError, AttributeError):
                continue
            try:
                mb = getattr(B, nm_)()
                ctx.eq("gene:%s:chromosome_blocks" % nm_, rm.loc_blocks(mb.chromosome_location), rm.loc_blocks(ma.chromosome_location))
            except (BioCantorException, ValueError) as e:
                if not all(tb.chunk_relative_location.is_empty for tb in B.transcripts):
                    ctx.fail("gene:%s_on_chunk_raises" % nm_, repr(e)[:120])
        ctx.eq("gene:chromosome_location", rm.loc_blocks(B.chromosome_location), rm.loc_blocks(A.chromosome_location))
        for ta, tb, ts in zip(A.transcripts, B.transcripts, o["transcripts"]):
            window_labels(ctx, ts["exons"], cs, ce, ts["strand"])
            check_interval_view(ctx, ta, tb, ts["exons"], ts["strand"], cs, ce, g, "gene_transcript")
        lo, hi = A.start, A.end
        inside = [p for p in range(lo, hi) if cs <= p < ce]
        if inside:
            ctx.eq("gene:chunk_relative_positions", rm.loc_positions(B.chunk_relative_location), [p - cs for p in inside])
            ctx.eq("gene:reference_sequence", str(B.get_reference_sequence()), g[inside[0]: inside[-1] + 1])
        else:
            ctx.true("gene:miss_is_empty", B.chunk_relative_location.is_empty, repr(B.chunk_relative_location))
    elif kind == "fc":
        A, B = mkfc(o, PA), mkfc(o, PB)
        ctx.nt("collection_on_chunk")
        ctx.eq("feature_collection:to_dict_without_collection_guid", strip_guids(norm_dict(B.to_dict())), strip_guids(norm_dict(A.to_dict())))
        ctx.eq("feature_collection:guid", str(B.guid), str(A.guid))
        ctx.eq("feature_collection:primary_feature", B.feature_intervals.index(B.get_primary_feature()), A.feature_intervals.index(A.get_primary_feature()))
        try:
            ma = A.get_merged_feature()
            mb = B.get_merged_feature()
            ctx.eq("feature_collection:get_merged_feature:chromosome_blocks", rm.loc_blocks(mb.chromosome_location), rm.loc_blocks(ma.chromosome_location))
        except (BioCantorException, ValueError):
            pass
        for fa, fb, fs in zip(A.feature_intervals, B.feature_intervals, o["features"]):
            check_interval_view(ctx, fa, fb, fs["blocks"], fs["strand"], cs, ce, g, "fc_feature")
    elif kind == "collection":
        ob = dict(o, start=spec["bounds"][0], end=spec["bounds"][1]) if spec.get("bounds") else o
        A, B = mkcollection(ob, PA), mkcollection(ob, PB)
        ctx.nt("collection_on_chunk")
        da, db = norm_dict(A.to_dict()), norm_dict(B.to_dict())
        # the collection's own bounds are documented to be inferred from the parent (chunk bounds) unless given explicitly
        ctx.eq("collection:bounds", (db["start"], db["end"]), tuple(spec["bounds"]) if spec.get("bounds") else (cs, ce))
        if spec.get("bounds"):
            ctx.label("collection_with_explicit_bounds_on_chunk")
            if spec["bounds"][0] > cs:
                ctx.label("collection_starts_inside_chunk")
        if spec.get("query"):
            # the same range query asked of both twins: same members, and every member reads the same bases
            def members(c):
                out = {}
                for ch in c.iter_children():
                    for kid in ch.iter_children() if hasattr(ch, "iter_children") else []:
                        try:
                            out[str(kid.guid)] = str(kid.get_spliced_sequence())
                        except BioCantorException as e:
                            out[str(kid.guid)] = "EXC:" + type(e).__name__
                return out
            qs, qe = spec["query"]
            outs = []
            for X in (A, B):
                try:
                    r = X.query_by_position(qs, qe, completely_within=False)
                    outs.append(("ok", (r.start, r.end), members(r), str(r.get_reference_sequence())))
                except (BioCantorException, ValueError) as e:
                    outs.append(("exc", type(e).__name__))
            ctx.eq("collection:query_same_on_chunk", outs[1], outs[0], extra={"query": [qs, qe]})
            ctx.label("collection_queried_on_both_twins")
        for k in ("start", "end"):
            da.pop(k), db.pop(k)
        ctx.eq("collection:to_dict_without_member_guids", strip_guids(db), strip_guids(da))
        ctx.eq("collection:children_guids", sorted(map(str, B.children_guids)), sorted(map(str, A.children_guids)))
        for ga, gb, gs in zip(A.genes, B.genes, o.get("genes", [])):
            for ta, tb, ts in zip(ga.transcripts, gb.transcripts, gs["transcripts"]):
                check_interval_view(ctx, ta, tb, ts["exons"], ts["strand"], cs, ce, g, "collection_transcript")


@st.composite
def strat_view(draw, tier="quick"):
    kind = draw(st.sampled_from(["feat", "cds", "cds", "tx", "tx", "tx", "gene", "fc", "collection"]))
    if kind == "feat":
        o = draw(S.feature_spec(max_blocks=4, max_len=8))
        lo, hi = o["blocks"][0][0], o["blocks"][-1][1]
    elif kind == "cds":
        o = draw(S.cds_spec(max_k=4, max_len=9, ambiguous_prob=50, frameshift_prob=8))
        o.pop("genome")
        lo, hi = o["blocks"][0][0], o["blocks"][-1][1]
    elif kind == "tx":
        o = draw(S.transcript_spec(max_exons=4, max_len=9, coding=draw(st.sampled_from([True, True, False])), frameshift_prob=12, cds_overlap_prob=8))
        lo, hi = o["exons"][0][0], o["exons"][-1][1]
    elif kind == "gene":
        o = draw(S.gene_spec(max_tx=3, max_exons=3, max_len=8))
        lo = min(t["exons"][0][0] for t in o["transcripts"])
        hi = max(t["exons"][-1][1] for t in o["transcripts"])
    elif kind == "fc":
        o = draw(S.feature_collection_spec(max_feat=3, max_blocks=3, max_len=8))
        lo = min(f["blocks"][0][0] for f in o["features"])
        hi = max(f["blocks"][-1][1] for f in o["features"])
    else:
        genes = draw(st.lists(S.gene_spec(max_tx=2, max_exons=3, max_len=6), min_size=0, max_size=2))
        fcs = draw(st.lists(S.feature_collection_spec(max_feat=2, max_blocks=2, max_len=6), min_size=0 if genes else 1, max_size=2))
        o = {"genes": genes, "feature_collections": fcs, "name": draw(st.one_of(st.none(), S.IDENT)), "qualifiers": draw(S.simple_qualifiers(2))}
        los = [t["exons"][0][0] for g_ in genes for t in g_["transcripts"]] + [f["blocks"][0][0] for c in fcs for f in c["features"]]
        his = [t["exons"][-1][1] for g_ in genes for t in g_["transcripts"]] + [f["blocks"][-1][1] for c in fcs for f in c["features"]]
        lo, hi = min(los), max(his)
    n = hi + draw(st.integers(1, 5))
    g = draw(S.dna(n, n))
    mode = draw(st.integers(0, 9))
    if mode == 0:
        cs, ce = 0, n
    elif mode == 1:
        cs, ce = lo, hi
    elif kind == "collection" and mode in (2, 3, 4, 5):
        # a chunk that contains every member with room on both sides (so that explicit collection bounds can start inside it)
        cs, ce = draw(st.integers(0, lo)), draw(st.integers(hi, n))
    elif mode == 2 and kind != "collection":
        # miss: before or after
        if lo >= 2 and draw(st.booleans()):
            cs, ce = 0, draw(st.integers(1, lo))
        else:
            cs = draw(st.integers(hi, n - 1))
            ce = draw(st.integers(cs + 1, n))
    else:
        cs = draw(st.integers(0, n - 1))
        ce = draw(st.integers(cs + 1, n))
    sp = {"kind": kind, "obj": o, "genome": g, "chunk": [cs, ce]}
    if kind == "collection" and cs <= lo and hi <= ce:
        if draw(st.booleans()):
            sp["bounds"] = [draw(st.integers(cs, lo)), draw(st.integers(hi, ce))]
        blo, bhi = sp.get("bounds") or (cs, ce)
        if bhi - blo >= 2 and draw(st.booleans()):
            qs = draw(st.integers(blo, bhi - 1))
            sp["query"] = [qs, draw(st.integers(qs + 1, bhi))]
    sp["chunk_idiom"] = draw(st.sampled_from(["api", "api", "docstring"]))
    if draw(st.integers(0, 3)) == 0:
        # low-complexity chromosome: windows shifted by a multiple of the repeat unit hold the same bases
        unit = draw(st.text(alphabet="ACGT", min_size=1, max_size=3))
        sp["genome"] = (unit * (n // len(unit) + 1))[:n]
        sp["decoy_shift"] = len(unit) * draw(st.sampled_from([-2, -1, 1, 1, 2]))
    if kind in ("feat", "tx", "cds") and draw(st.integers(0, 3)) == 0:
        sp["chunk_strand"] = "-"   # the chunk is the reverse complement of its window (seq_chunk_to_parent(strand=MINUS))
        if kind == "tx" and o.get("cds_overlapped"):
            # seen from a reverse-complement chunk the CDS is on the other strand: a codon straddling the overlap must still be
            # representable there (ties on start are broken differently on the two strands, finding F25)
            cod, _ = rm.frame_walk(o["cds"], o["strand"], o["frames"])
            mirrored = [tuple(ce - 1 - p_ for p_ in c_) for c_ in cod]
            if not rm.codons_representable(mirrored, rm.flip(o["strand"])):
                del sp["chunk_strand"]
    return sp


def enum_single_exon_cds(tier, shard, nshards):
    """single-exon CDS: offset x (cs - start) x strand x len mod 3 exhaustively"""
    i = 0
    g = "ATGGCCTTAGCTAAGTGACCATGCGT"
    for strand in "+-":
        for off in (0, 1, 2):
            for L in range(4, 11):
                s = 5
                for cs in range(s - 1, s + L):
                    for ce in range(max(cs + 1, s + 1), s + L + 2):
                        i += 1
                        if i % nshards != shard:
                            continue
                        yield {"kind": "cds", "obj": {"blocks": [[s, s + L]], "strand": strand, "offset": off, "frames": [off], "frameshift": False},
                               "genome": g, "chunk": [cs, ce]}


def pred_f6(spec, clause, detail):
    """single-exon CDS with start frame != 0 cut at its 5' end: exactly the first complete codon is lost (see C05 F6)"""
    o = spec["obj"]
    if spec["kind"] == "cds":
        bl, fr = o["blocks"], o["frames"]
    elif spec["kind"] == "tx" and "cds" in o:
        bl, fr = o["cds"], o["frames"]
    else:
        return False
    if "optimize_" in clause:
        # the CDS in question is the MERGED one: abutting (and, for optimize_and_combine_blocks, overlapping) blocks are one block,
        # its frame is the 5' frame of the source
        mg = []
        for b_ in sorted(map(tuple, bl)):
            if mg and (b_[0] == mg[-1][1] or ("and_combine" in clause and b_[0] < mg[-1][1])):
                mg[-1] = (mg[-1][0], max(mg[-1][1], b_[1]))
            else:
                mg.append(b_)
        strand_ = o["strand"]
        bl, fr = mg, [fr[0] if strand_ == "+" else fr[-1]]
    if len(bl) != 1 or fr[0] == 0:
        return False
    try:
        d = json.loads(detail)
    except Exception:
        return False
    if "got" in d and "expected" in d:
        g_, e_ = d["got"], d["expected"]
        if isinstance(g_, int) and isinstance(e_, int):
            return g_ == e_ - 1
        if isinstance(g_, str) and isinstance(e_, str):  # sequences
            return g_ == e_[3:]
        if isinstance(g_, list) and isinstance(e_, list):
            return g_ == e_[1:]
        return False
    if "exp" in d:
        return len(d["got"]) == len(d["exp"]) - 1
    return False


def pred_collection_guid(spec, clause, detail):
    """the member's chunk-relative location differs textually from its chromosome location: chunk start > 0 or the member is clipped"""
    if spec["kind"] not in ("gene", "fc", "collection"):
        return False
    cs, ce = spec["chunk"]
    o = spec["obj"]
    spans = []
    members = [o] if spec["kind"] != "collection" else o.get("genes", []) + o.get("feature_collections", [])
    for m in members:
        los = [t["exons"][0][0] for t in m.get("transcripts", [])] + [f["blocks"][0][0] for f in m.get("features", [])]
        his = [t["exons"][-1][1] for t in m.get("transcripts", [])] + [f["blocks"][-1][1] for f in m.get("features", [])]
        spans.append((min(los), max(his)))
    return cs > 0 or any(lo < cs or hi > ce for lo, hi in spans)


PROP = Prop(
    pid="C07",
    legs=[
        Leg("views", check_view, strategy=strat_view, n_quick=900, n_thorough=9000, shards_quick=4,
            must_hit=["cuts_cds_5p&offset!=0", "cuts_exon&minus", "misses", "chunk_inside_intron", "chunk_covers_only_skipped_bases",
                      "collection_on_chunk", "cds_outside_chunk", "chunk_start>0"],
            rule="(feature | CDS | transcript | gene | feature collection | annotation collection) x chunk window (whole, exact span, miss, random); twin A on seq_to_parent(genome), twin B on seq_chunk_to_parent(genome[cs:ce]); also A re-lifted onto the chunk"),
        Leg("single_exon_cds_chunks", check_view, enumerate=enum_single_exon_cds, exhaustive=True, shards_quick=8, shards_thorough=8,
            rule="single-exon CDS: strand x start offset x length 4..10 x every chunk start x every chunk end, exhaustively"),
    ],
    rule="Oracle: whole-chromosome twin + PosModel/SeqModel/FrameModel restricted to [cs,ce). Non-trivial: every (object, window) pair; labels record "
         "cuts of exons / CDS 5' end / misses. Distinct = canonical JSON.",
    assumptions=[
        "is_coding / cds of a transcript whose CDS lies outside the chunk is not asserted (not stated by the property); its dictionary form and identifier are",
        "chunk_relative_frames is not compared for CDS with a programmed frameshift (documented loss)",
        "the bounds of an AnnotationCollection built on a chunk without explicit start/end are the chunk bounds (documented)",
    ],
    predicates={"f6": pred_f6, "collection_guid": pred_collection_guid},
)
