"""C01 — Location <-> parent coordinate maps are exact, mutually inverse and strand-aware."""
import itertools

from hypothesis import strategies as st

import harness.compat  # noqa: F401
from harness import refmodel as rm
from harness import strategies as S
from harness.build import mkloc, mkloc_blocks, STRAND, shifted_blocks
from harness.core import Leg, Prop
from inscripta.biocantor.exc import InvalidPositionException, LocationOverlapException, InvalidStrandException
from inscripta.biocantor.gene.feature import FeatureInterval
from inscripta.biocantor.location.location_impl import SingleInterval, CompoundInterval

REJECT = (InvalidPositionException, ValueError)  # documented refusal of an out-of-range position


def labels_for(ctx, spec):
    bl = spec["blocks"]
    ne = rm.sorted_blocks(bl)
    k = len(ne)
    if spec["strand"] == "-" and k >= 2:
        ctx.label("minus&k>=2")
    if any(b[0] == b[1] for b in bl):
        ctx.label("empty_block")
    if any(ne[i][1] == ne[i + 1][0] for i in range(k - 1)):
        ctx.label("adjacent")
    if rm.has_self_overlap(bl):
        ctx.label("overlap")
        if any(a[0] <= b[0] and b[1] <= a[1] and a != b for a in ne for b in ne):
            ctx.label("nested_overlap")
    if spec.get("shift"):
        ctx.label("shifted")
    if k >= 8:
        ctx.label("k>=8")
    if k >= 2 or spec["strand"] == "-" or len(bl) != k or rm.has_self_overlap(bl):
        ctx.nt()


# ------------------------------------------------------------------------------------ point maps


def check_points(spec, ctx):
    labels_for(ctx, spec)
    loc = mkloc(spec)
    bl = shifted_blocks(spec)
    pos = rm.positions(bl, spec["strand"])
    overlap = rm.has_self_overlap(bl)
    ctx.eq("len", len(loc), len(pos))
    if spec["strand"] != "." and len(bl) >= 1:
        # a location is a value: what the caller later does to the lists it was built from (growing a working list of exons,
        # clearing it for the next location) does not reach into it.  (The gene-level interval classes document nothing of the
        # sort and do adopt their coordinate lists - DESIGN 9.8 - this clause is about Location constructors only.)
        from inscripta.biocantor.location.location_impl import CompoundInterval as _CI, SingleInterval as _SI
        order = spec.get("order") or list(range(len(bl)))
        ls, le = [bl[i][0] for i in order], [bl[i][1] for i in order]
        via_lists = _CI(ls, le, STRAND[spec["strand"]])
        ivs = [_SI(s_, e_, STRAND[spec["strand"]]) for s_, e_ in sorted(map(tuple, bl))]
        via_intervals = _CI.from_single_intervals(ivs)
        hi_ = max(b[1] for b in bl)
        ls.append(hi_ + 5), le.append(hi_ + 9)
        ls[0], le[0] = ls[0] + 1, le[0] + 1
        ivs.append(_SI(hi_ + 5, hi_ + 9, STRAND[spec["strand"]]))
        ivs.pop(0)
        point_maps_intact(ctx, via_lists, pos, overlap, "built_from_lists_then_lists_edited", spec["strand"])
        point_maps_intact(ctx, via_intervals, pos, overlap, "built_from_intervals_then_list_edited", spec["strand"])
        ivs.clear()
        point_maps_intact(ctx, via_intervals, pos, overlap, "built_from_intervals_then_list_cleared", spec["strand"])
    # relative -> parent enumerates the bases 5'->3'
    got = []
    for i in range(len(pos)):
        got.append(loc.relative_to_parent_pos(i))
    ctx.eq("r2p_enumerates", got, pos)
    # coordinates are plain Python ints (they are written into JSON, GFF3, BED and used as slice bounds by every caller)
    ctx.true("coordinates_are_plain_ints", all(type(x) is int for x in got) and type(loc.start) is int and type(loc.end) is int and type(len(loc)) is int,
             sorted({type(x).__name__ for x in got + [loc.start, loc.end]}))
    for bad in (-1, len(pos), len(pos) + 1):
        try:
            r = loc.relative_to_parent_pos(bad)
            ctx.fail("r2p_out_of_range_accepted", {"rel": bad, "got": r})
        except REJECT:
            pass
    # parent -> relative is the inverse; positions outside are rejected
    if pos:
        lo, hi = min(pos) - 2, max(pos) + 2
    else:
        lo, hi = bl[0][0] - 2, bl[0][0] + 2
    pset = set(pos)
    for p in range(max(lo, -1), hi + 1):
        if p in pset:
            try:
                r = loc.parent_to_relative_pos(p)
            except REJECT as e:
                ctx.fail("p2r_rejects_member", {"p": p, "exc": repr(e)[:100]})
                continue
            if type(r) is not int:
                ctx.fail("p2r_not_a_plain_int", {"p": p, "type": type(r).__name__})
            if not (0 <= r < len(pos)) or pos[r] != p:
                ctx.fail("p2r_not_inverse", {"p": p, "rel": r})
            elif not overlap:
                ctx.eq("p2r_index", r, pos.index(p))
            if p in (bl_end - 1 for _, bl_end in bl) or p in (s for s, _ in bl):
                ctx.label("block_boundary_position")
        else:
            try:
                r = loc.parent_to_relative_pos(p)
                ctx.fail("p2r_outside_accepted", {"p": p, "got": r})
            except REJECT:
                pass
    # structural attributes used by every caller
    ne = rm.canonical_sort(rm.sorted_blocks(bl), spec["strand"])
    if ne:
        ctx.eq("start_attr", loc.start, min(s for s, _ in bl))
        ctx.eq("end_attr", loc.end, max(e for _, e in bl))
    # scan_blocks order = 5'->3'
    if spec["strand"] in "+-":
        sb = [(b.start, b.end) for b in loc.scan_blocks() if b.end > b.start]
        ctx.eq("scan_blocks_order", sb, ne if spec["strand"] == "+" else list(reversed(ne)))


# ------------------------------------------------------------------------------------ relative sub-interval -> parent


def expected_subblocks(bl, strand, a, b):
    """blocks (ascending coordinate order) of the image of relative [a,b)"""
    pos = rm.positions(bl, strand)[a:b]
    # split into runs following the block structure: walk blocks in scan order
    ne = rm.canonical_sort(rm.sorted_blocks(bl), strand)
    order = ne if strand != "-" else list(reversed(ne))
    out = []
    off = 0
    for s, e in order:
        L = e - s
        x, y = max(a, off), min(b, off + L)
        if x < y:
            if strand != "-":
                out.append((s + (x - off), s + (y - off)))
            else:
                out.append((e - (y - off), e - (x - off)))
        off += L
    return pos, out  # out is in scan order


def check_rel_interval(spec, ctx):
    labels_for(ctx, spec)
    loc = mkloc(spec)
    bl = shifted_blocks(spec)
    strand = spec["strand"]
    pos = rm.positions(bl, strand)
    n = len(pos)
    overlap = rm.has_self_overlap(bl)
    pairs = spec.get("pairs")
    if pairs is None:
        pairs = [(a, b) for a in range(n + 1) for b in range(a, n + 1)]
    ne = rm.canonical_sort(rm.sorted_blocks(bl), strand)
    bounds = set()
    off = 0
    for s, e in (ne if strand != "-" else list(reversed(ne))):
        off += e - s
        bounds.add(off)
    for a, b in pairs:
        # the same window is asked on ONE object with the strands in both orders (+,-,+ or -,+,-), so that an answer that
        # depended on the previous request for that window would show
        order = spec.get("rel_strands") or (["+", "-", "+"] if (a + b) % 2 == 0 else ["-", "+", "-"]) + (["."] if (2 * a + b) % 3 == 0 or (a, b) == (0, n) else [])
        for rs in order:
            try:
                res = loc.relative_interval_to_parent_location(a, b, STRAND[rs])
            except REJECT as e:
                if a == b:
                    # zero-length request: refusal allowed (DESIGN C01), notably a=b=len on a compound location
                    ctx.refuse("zero_length_refused")
                    continue
                ctx.fail("rel_interval_rejected_valid", {"a": a, "b": b, "rs": rs, "exc": repr(e)[:120]})
                continue
            exp_strand = rm.compose(strand, rs)
            exp_pos, sub = expected_subblocks(bl, strand, a, b)
            if a == b:
                ctx.eq("rel_interval_zero_length", len(res), 0, extra=[a, b])
                ctx.label("zero_length_request")
                continue
            if any(a < x < b for x in bounds):
                ctx.label("subinterval_crosses_boundary")
            if strand == "-" and b == n:
                ctx.label("last_base_of_minus_block")
            rm.wellformed(res, ctx, "rel_interval_result", optimized=not overlap, expect_strand=exp_strand)
            got = rm.loc_positions(res)
            want = exp_pos if rs == "+" else list(reversed(exp_pos))
            if rs == ".":
                want = sorted(exp_pos)
                got = sorted(got)
            asc = sub if strand != "-" else list(reversed(sub))
            # the image is representable iff re-sorting its blocks canonically (for either result strand) keeps their order
            representable = rm.canonical_sort(asc, "+") == asc and rm.canonical_sort(asc, "-") == asc
            if got != want:
                if sorted(got) == sorted(want) and (not representable or overlap):
                    # the 5'->3' order of the image cannot be represented (blocks are re-sorted by start)
                    ctx.fail("rel_interval_order_unrepresentable", {"a": a, "b": b, "rs": rs, "got": got, "want": want})
                else:
                    ctx.fail("rel_interval_image", {"a": a, "b": b, "rs": rs, "got": got, "want": want})
            ctx.eq("rel_interval_len", len(res), b - a)
    for a, b in ((-1, 1), (0, n + 1), (2, 1)):
        try:
            loc.relative_interval_to_parent_location(a, b, STRAND["+"])
            ctx.fail("rel_interval_invalid_accepted", [a, b, n])
        except REJECT:
            pass
    # fixed-size windows along the location are documented as these very sub-intervals: window j of scan_windows(size, step, start)
    # holds the bases pos[start + j*step : start + j*step + size], 5'->3' (without self-overlap the order is always representable)
    if n >= 1 and not overlap and strand != ".":
        for size, step, start in spec.get("windows") or [(1, 1, 0), (2, 1, 0), (3, 2, 1), (5, 3, 0), (n, 1, 0)]:
            if not (1 <= size <= n and step >= 1 and 0 <= start and start + size <= n):
                continue
            try:
                wins = list(loc.scan_windows(size, step, start))
            except REJECT as e:
                ctx.fail("scan_windows_refused_valid_arguments", {"args": [size, step, start], "exc": repr(e)[:80]})
                continue
            want = [pos[i:i + size] for i in range(start, n - size + 1, step)]
            ctx.eq("scan_windows_images", [rm.loc_positions(w) for w in wins], want, extra=[size, step, start])
            ctx.true("scan_windows_strand", all(rm.loc_strand(w) == strand for w in wins), [rm.loc_strand(w) for w in wins])
            if any(len(rm.blocks_of_set(set(w_))) >= 3 for w_ in want):
                ctx.label("window_spans_three_blocks")


# ------------------------------------------------------------------------------------ parent location -> relative


def point_maps_intact(ctx, loc, pos, overlap, clause, strand):
    """after a conversion was asked of a location (as receiver or as argument) its own point-wise maps still enumerate its bases
    5'->3' and invert each other - a conversion that reorders or rewrites the receiver's block list shows up here"""
    if strand == ".":
        return   # direction-dependent maps refuse unstranded locations (documented)
    try:
        got = [loc.relative_to_parent_pos(i) for i in range(len(pos))]
    except Exception as e:
        ctx.fail(clause + ":r2p_raises_afterwards", repr(e)[:100])
        return
    ctx.eq(clause + ":r2p_enumerates_afterwards", got, pos)
    if not overlap:
        try:
            back = [loc.parent_to_relative_pos(p_) for p_ in pos]
        except Exception as e:
            ctx.fail(clause + ":p2r_raises_afterwards", repr(e)[:100])
            return
        ctx.eq(clause + ":p2r_inverse_afterwards", back, list(range(len(pos))))
    sb = [(b_.start, b_.end) for b_ in loc.scan_blocks()]
    exp_sb = rm.canonical_sort(rm.loc_blocks(loc), strand)
    ctx.eq(clause + ":scan_blocks_5p_to_3p_afterwards", sb, exp_sb if strand != "-" else list(reversed(exp_sb)))


def check_rel_location(spec, ctx):
    L, Q = spec["loc"], spec["query"]
    labels_for(ctx, L)
    loc = mkloc(L)
    q = mkloc(Q)
    lb, qb = shifted_blocks(L), shifted_blocks(Q)
    pos = rm.positions(lb, L["strand"])
    qpos = rm.positions(qb, Q["strand"])
    l_overlap = rm.has_self_overlap(lb)
    q_overlap = rm.has_self_overlap(qb)
    common = set(pos) & set(qpos)
    if len(rm.sorted_blocks(qb)) >= 2:
        ctx.label("query_multiblock")
    for opt in (True, False):
        try:
            res = loc.parent_to_relative_location(q, optimize_blocks=opt)
        except LocationOverlapException:
            ctx.true("rel_location_refused_but_overlapping", not common, {"common": sorted(common)})
            ctx.refuse("no_overlap")
            continue
        except InvalidStrandException:
            ctx.true("rel_location_strand_refusal", "." in (L["strand"], Q["strand"]))
            ctx.refuse("unstranded")
            continue
        ctx.true("rel_location_answered_without_overlap", bool(common), {"res": repr(res)})
        if not common:
            continue
        exp_strand = rm.compose(Q["strand"], L["strand"])
        rm.wellformed(res, ctx, "rel_location_result", optimized=(opt and not q_overlap and not l_overlap), expect_strand=exp_strand)
        ctx.true("rel_location_no_parent", res.parent is None)
        rel_idx = rm.loc_positions(res)  # 5'->3' order of the result in relative coordinates
        if not l_overlap and not q_overlap:
            exp_idx_set = sorted(i for i, p in enumerate(pos) if p in common)
            ctx.eq("rel_location_index_set", sorted(rel_idx), exp_idx_set, extra={"opt": opt})
            if all(0 <= i < len(pos) for i in rel_idx) and exp_strand != ".":
                image = [pos[i] for i in rel_idx]
                want = [p for p in qpos if p in common]
                ctx.eq("rel_location_order", image, want, extra={"opt": opt})
        else:
            ctx.label("overlapping_operand")
            # with self-overlapping operands a parent base has several relative indices; any preimage is acceptable
            ok_idx = all(0 <= i < len(pos) for i in rel_idx)
            ctx.true("rel_location_index_range_overlapping", ok_idx, rel_idx)
            if ok_idx:
                ctx.eq("rel_location_image_overlapping", sorted(set(pos[i] for i in rel_idx)), sorted(common), extra={"opt": opt})
                if not l_overlap and exp_strand != ".":
                    # only the QUERY overlaps itself: every base of the query inside the location has exactly one relative index, and
                    # a base the query covers twice is reported twice (optimising blocks never drops a doubly covered base)
                    ctx.eq("rel_location_multiset_with_self_overlapping_query", sorted(rel_idx), sorted(pos.index(p_) for p_ in qpos if p_ in common), extra={"opt": opt})
        if common and len(common) < len(set(qpos)):
            ctx.label("query_partially_outside")
    # both operands keep their own coordinate maps
    point_maps_intact(ctx, loc, pos, l_overlap, "rel_location:receiver", L["strand"])
    point_maps_intact(ctx, q, qpos, q_overlap, "rel_location:argument", Q["strand"])
    # ... also when the roles are swapped (the location that was the argument becomes the reference)
    try:
        q.parent_to_relative_location(loc)
    except (LocationOverlapException, InvalidStrandException):
        pass
    point_maps_intact(ctx, loc, pos, l_overlap, "rel_location:argument_of_swapped_call", L["strand"])
    point_maps_intact(ctx, q, qpos, q_overlap, "rel_location:receiver_of_swapped_call", Q["strand"])
    # ... and after the two locations took part in set algebra together (the maps belong to the location, whatever else it was
    # an operand of); the results of that algebra are C02's, here only the operands' own maps are asked again
    for name in ("union", "intersection", "minus", "union_preserve_overlaps", "has_overlap", "contains"):
        for x, y in ((loc, q), (q, loc)):
            try:
                getattr(x, name)(y)
            except Exception:
                pass
    ctx.label("maps_asked_after_set_algebra")
    point_maps_intact(ctx, loc, pos, l_overlap, "rel_location:operand_of_set_algebra", L["strand"])
    point_maps_intact(ctx, q, qpos, q_overlap, "rel_location:other_operand_of_set_algebra", Q["strand"])


# ------------------------------------------------------------------------------------ interval wrappers


def check_wrappers(spec, ctx):
    labels_for(ctx, spec)
    bl = spec["blocks"]
    strand = spec["strand"]
    fi = FeatureInterval([b[0] for b in bl], [b[1] for b in bl], STRAND[strand])
    pos = rm.positions(bl, strand)
    n = len(pos)
    for i, p in enumerate(pos):
        ctx.eq("feature_pos_to_sequence", fi.feature_pos_to_sequence(i), p)
        ctx.eq("sequence_pos_to_feature", fi.sequence_pos_to_feature(p), i)
        ctx.eq("feature_pos_to_chunk_relative", fi.feature_pos_to_chunk_relative(i), p)
        ctx.eq("chunk_relative_pos_to_feature", fi.chunk_relative_pos_to_feature(p), i)
    for p in (min(pos) - 1, max(pos) + 1):
        if p >= 0:
            try:
                fi.sequence_pos_to_feature(p)
                ctx.fail("wrapper_outside_accepted", p)
            except REJECT:
                pass
    a, b = spec["a"] % (n + 1), spec["b"] % (n + 1)
    a, b = min(a, b), max(a, b)
    if a < b:
        for rs in "+-":
            res = fi.feature_interval_to_sequence(a, b, STRAND[rs])
            want = pos[a:b] if rs == "+" else pos[a:b][::-1]
            ctx.eq("feature_interval_to_sequence", rm.loc_positions(res), want)
            ctx.eq("feature_interval_to_sequence_strand", rm.loc_strand(res), rm.compose(strand, rs))
            res2 = fi.feature_interval_to_chunk_relative(a, b, STRAND[rs])
            ctx.eq("feature_interval_to_chunk_relative", rm.loc_positions(res2), want)
    # chromosome interval -> feature coordinates
    cs, ce = spec["cs"], spec["ce"]
    lo, hi = min(pos), max(pos) + 1
    cs = lo - 1 + cs % (hi - lo + 2)
    ce = lo - 1 + ce % (hi - lo + 2)
    cs, ce = max(0, min(cs, ce)), max(cs, ce) + 1
    common = set(range(cs, ce)) & set(pos)
    for qs in "+-":
        for fn in (fi.sequence_interval_to_feature, fi.chunk_relative_interval_to_feature):
            try:
                res = fn(cs, ce, STRAND[qs])
            except LocationOverlapException:
                ctx.true("wrapper_refused_overlapping", not common)
                continue
            ctx.true("wrapper_answered_disjoint", bool(common))
            ctx.eq("sequence_interval_to_feature", sorted(rm.loc_positions(res)), sorted(i for i, p in enumerate(pos) if p in common))
            ctx.eq("sequence_interval_to_feature_strand", rm.loc_strand(res), rm.compose(qs, strand))


# ------------------------------------------------------------------------------------ strategies


def strat_points(tier):
    big = tier == "thorough"
    # one case in ten has many short blocks (8..14; mostly without self-overlap)
    return st.one_of(*([S.location_spec(max_k=6 if big else 5, allow_overlap=True, allow_nested=True, max_len=12 if big else 8)] * 9
                       + [st.booleans().flatmap(lambda ov: S.location_spec(min_k=8, max_k=14, allow_overlap=ov and False, max_len=3, max_gap=3))]))


def strat_rel_interval(tier):
    big = tier == "thorough"
    return S.location_spec(max_k=6 if big else 4, allow_overlap=True, allow_nested=True, max_len=8 if big else 6)


@st.composite
def strat_rel_location(draw, tier="quick"):
    big = tier == "thorough"
    L = draw(S.location_spec(max_k=5 if big else 4, allow_overlap=draw(st.integers(0, 5)) == 0, allow_nested=True, shift_prob=0,
                             strands=["+", "-", "+", "-", "+", "-", "."]))
    lo = max(0, min(b[0] for b in L["blocks"]) - 3)
    hi = max(b[1] for b in L["blocks"]) + 3
    # query: 1..3 blocks inside [lo, hi]
    k = draw(st.sampled_from([1, 1, 2, 2, 3]))
    cuts = sorted(draw(st.lists(st.integers(lo, hi), min_size=2 * k, max_size=2 * k)))
    qb = []
    for i in range(k):
        s, e = cuts[2 * i], cuts[2 * i + 1]
        if e == s:
            e = s + 1
        if qb and s < qb[-1][1]:
            s = qb[-1][1]
            e = max(e, s + 1)
        qb.append([s, e])
    # optional staggered overlap in the query
    if k >= 2 and draw(st.integers(0, 7)) == 0:
        qb[1][0] = max(qb[0][0] + 1, qb[0][1] - 1)
        qb[1][1] = max(qb[1][1], qb[0][1] + 1)
        for i in range(2, k):
            if qb[i][0] < qb[i - 1][1]:
                qb[i][0] = qb[i - 1][1]
                qb[i][1] = max(qb[i][1], qb[i][0] + 1)
    Q = {"blocks": qb, "strand": draw(st.sampled_from(["+", "-", "+", "-", "."])), "order": list(draw(st.permutations(range(k)))),
         "shift": 0, "compound": draw(st.booleans())}
    return {"loc": L, "query": Q}


@st.composite
def strat_wrappers(draw, tier="quick"):
    bl = draw(S.layout(max_k=5, allow_empty=False, allow_overlap=False))
    return {"blocks": bl, "strand": draw(st.sampled_from(["+", "-"])), "a": draw(st.integers(0, 60)), "b": draw(st.integers(0, 60)),
            "cs": draw(st.integers(0, 80)), "ce": draw(st.integers(0, 80))}


def enum_small(tier, shard, nshards):
    """ALL layouts (incl. nested blocks and ties on start) with <=3 blocks over a 6-base (quick) / 7-base (thorough) genome, both strands"""
    N = 6 if tier == "quick" else 7
    allb = [(s, e) for s in range(N + 1) for e in range(s, N + 1)]
    i = 0
    for k in (1, 2, 3):
        for combo in itertools.combinations(allb, k):
            ne = [b for b in combo if b[1] > b[0]]
            if not ne:
                continue
            if len(set(ne)) < len(ne):
                continue
            if any(b[0] == b[1] and any(x[0] < b[0] < x[1] for x in ne) for b in combo):
                continue
            for strand in "+-":
                i += 1
                if i % nshards == shard:
                    yield {"blocks": [list(b) for b in combo], "strand": strand, "order": list(range(k))[::-1], "shift": 0, "compound": True}


def check_small(spec, ctx):
    check_points(spec, ctx)
    check_rel_interval(spec, ctx)


def known_order_unrepresentable(spec, clause, detail):
    L = spec.get("loc", spec)
    return rm.has_self_overlap(L["blocks"])


EX = [
    {"blocks": [[2, 5], [5, 5], [5, 9]], "strand": "-", "order": [0, 1, 2], "shift": 0, "compound": True},
    {"blocks": [[5, 5], [5, 8]], "strand": "-", "order": [1, 0], "shift": 0, "compound": True},
    {"blocks": [[0, 3], [3, 6], [8, 9]], "strand": "-", "order": [2, 0, 1], "shift": 0, "compound": True},
    {"blocks": [[0, 10], [8, 12]], "strand": "-", "order": [0, 1], "shift": 0, "compound": True},
    {"blocks": [[4, 4]], "strand": "+", "order": [0], "shift": 0, "compound": False},
    {"blocks": [[3, 9]], "strand": "-", "order": [0], "shift": 2 ** 31, "compound": False},
]

PROP = Prop(
    pid="C01",
    legs=[
        Leg("point_maps", check_points, strategy=strat_points, examples=EX, n_quick=2500, n_thorough=25000,
            must_hit=["minus&k>=2", "empty_block", "adjacent", "overlap", "nested_overlap", "block_boundary_position", "shifted", "k>=8"],
            rule="random staggered layouts (k<=5/6, one in ten with 8..14 short blocks; empty/adjacent/overlapping blocks, shuffled constructor order, optional 2^31 shift) x both strands; every relative position and every parent position in span+-2"),
        Leg("point_maps_coverage_guided", check_points, fuzz_of="point_maps", n_quick=300, n_thorough=12000, shards_quick=2, shards_thorough=8,
            rule="coverage-guided: the `point_maps` leg's strategy driven by atheris/libFuzzer through hypothesis.fuzz_one_input with the `inscripta` package instrumented (fresh empty corpus, budget in runs; same check, clauses and known-finding predicates; failures collected unshrunk)"),
        Leg("rel_interval", check_rel_interval, strategy=strat_rel_interval, examples=EX[:4], n_quick=600, n_thorough=4000,
            must_hit=["subinterval_crosses_boundary", "last_base_of_minus_block", "zero_length_request"],
            rule="every (a,b) with 0<=a<=b<=len x relative strand +/- of random layouts"),
        Leg("rel_location", check_rel_location, strategy=strat_rel_location, n_quick=2500, n_thorough=25000,
            must_hit=["query_multiblock", "query_partially_outside", "no_overlap"],
            rule="pairs (location, query location of 1..3 blocks on any strand), optimize_blocks both ways"),
        Leg("interval_wrappers", check_wrappers, strategy=strat_wrappers, n_quick=600, n_thorough=5000,
            rule="FeatureInterval coordinate wrappers over random layouts: every position, one sub-interval, one chromosome window"),
        Leg("small_exhaustive", check_small, enumerate=enum_small, exhaustive=True, shards_quick=8, shards_thorough=16,
            rule="ALL layouts of <=3 blocks (nested, tied, staggered, adjacent, with empty blocks at boundaries) over a 6-base (quick) / 7-base (thorough) genome x both strands: every position and every sub-interval"),
    ],
    rule="Non-trivial: >=2 non-empty blocks, or minus strand, or an empty/overlapping block present. Distinct = canonical JSON of the spec. "
         "Oracle: PosModel (list of parent positions in 5'->3' order computed from the block list with plain ints).",
    assumptions=[
        "5'->3' order of self-overlapping (staggered, nested, tied) blocks is the documented canonical block order: ascending start, ties by end ascending on plus / descending on minus",
        "empty blocks are only placed at coordinates not strictly inside a non-empty block",
        "a zero-length sub-interval request may be refused with a documented exception",
    ],
    predicates={"order_unrepresentable": known_order_unrepresentable},
)
