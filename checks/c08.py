"""C08 — serialised forms round-trip; identifiers are deterministic functions of content."""
import copy
import json
import os
import pickle
import subprocess
import sys

from hypothesis import strategies as st

import harness.compat  # noqa: F401
from harness import refmodel as rm
from harness import strategies as S
from harness.build import mkcollection, mkgene, mkfc, mktx, mkfeat, mkcds, mkvc, chrom_parent, chunk_parent
from harness.core import Leg, Prop, VERIF_DIR, REPO_DIR
from harness.guid_worker import describe
from inscripta.biocantor.gene.cds import CDSInterval
from inscripta.biocantor.parent import Parent
from inscripta.biocantor.gene.collections import AnnotationCollection
from inscripta.biocantor.gene.feature import FeatureInterval, FeatureIntervalCollection
from inscripta.biocantor.gene.gene import GeneInterval
from inscripta.biocantor.gene.transcript import TranscriptInterval
from inscripta.biocantor.gene.variants import VariantIntervalCollection, VariantInterval
from inscripta.biocantor.io.models import (
    AnnotationCollectionModel, GeneIntervalModel, FeatureIntervalCollectionModel, TranscriptIntervalModel,
    FeatureIntervalModel, VariantIntervalCollectionModel, VariantIntervalModel,
)

BUILD = {"collection": mkcollection, "gene": mkgene, "fc": mkfc, "tx": mktx, "feat": mkfeat, "cds": mkcds, "vc": mkvc}
CLS = {"collection": AnnotationCollection, "gene": GeneInterval, "fc": FeatureIntervalCollection, "tx": TranscriptInterval,
       "feat": FeatureInterval, "cds": CDSInterval, "vc": VariantIntervalCollection}
MODEL = {"collection": (AnnotationCollectionModel, "from_annotation_collection", "to_annotation_collection"),
         "gene": (GeneIntervalModel, "from_gene_interval", "to_gene_interval"),
         "fc": (FeatureIntervalCollectionModel, "from_feature_collection", "to_feature_collection"),
         "tx": (TranscriptIntervalModel, "from_transcript_interval", "to_transcript_interval"),
         "feat": (FeatureIntervalModel, "from_feature_interval", "to_feature_interval"),
         "vc": (VariantIntervalCollectionModel, "from_variant_interval_collection", "to_variant_interval_collection")}


def nd(d):
    return json.loads(json.dumps(d, default=str, sort_keys=True))


def parent_of(spec):
    g = spec.get("genome")
    if spec.get("seqless"):
        # a parent that only names and/or types the chromosome (what parsers build when no FASTA is given)
        return Parent(id=spec["seqless"].get("id"), sequence_type=spec["seqless"].get("type"))
    if g is None:
        return None
    if spec.get("chunk"):
        return chunk_parent(g, spec["chunk"][0], spec["chunk"][1], strand=spec.get("chunk_strand", "+"), idiom=spec.get("chunk_idiom", "api"))
    return chrom_parent(g)


def same_object(ctx, clause, x, y, with_sequence):
    ctx.true(clause + ":equal", x == y, {"x": repr(x)[:100], "y": repr(y)[:100]})
    ctx.eq(clause + ":guid", str(y.guid), str(x.guid))
    ctx.eq(clause + ":to_dict", nd(y.to_dict()), nd(x.to_dict()))
    ctx.eq(clause + ":hash", hash(y), hash(x))
    ctx.eq(clause + ":coordinates", (y.start, y.end), (x.start, x.end))
    cx, cy = x.chunk_relative_location, y.chunk_relative_location
    ctx.eq(clause + ":chunk_relative_blocks", [] if cy.is_empty else rm.loc_blocks(cy), [] if cx.is_empty else rm.loc_blocks(cx))
    if hasattr(x, "qualifiers"):
        ctx.eq(clause + ":qualifiers", {k: sorted(v) for k, v in (y.qualifiers or {}).items()}, {k: sorted(v) for k, v in (x.qualifiers or {}).items()})
    if with_sequence and not cx.is_empty and not isinstance(x, (AnnotationCollection, VariantIntervalCollection)):
        if hasattr(x, "get_spliced_sequence"):
            ctx.eq(clause + ":sequence", str(y.get_spliced_sequence()), str(x.get_spliced_sequence()))
        elif hasattr(x, "get_reference_sequence"):
            ctx.eq(clause + ":sequence", str(y.get_reference_sequence()), str(x.get_reference_sequence()))
    if isinstance(x, VariantIntervalCollection) and with_sequence:
        ctx.eq(clause + ":alternative_sequence", str(y.alternative_genomic_sequence), str(x.alternative_genomic_sequence))
    if isinstance(x, AnnotationCollection):
        ctx.eq(clause + ":children", [str(c.guid) for c in y.iter_children()], [str(c.guid) for c in x.iter_children()])
        if with_sequence:
            for a, b in zip(x.iter_children(), y.iter_children()):
                if isinstance(a, VariantIntervalCollection):
                    ctx.eq(clause + ":member_alternative_sequence", str(b.alternative_genomic_sequence), str(a.alternative_genomic_sequence))
                    continue
                for ga, gb in zip(a.iter_children(), b.iter_children()):
                    if not ga.chunk_relative_location.is_empty:
                        ctx.eq(clause + ":member_sequence", str(gb.get_spliced_sequence()), str(ga.get_spliced_sequence()))


def labels(ctx, spec):
    kind, o = spec["kind"], spec["obj"]
    if kind == "collection":
        kinds = sum(1 for k in ("genes", "feature_collections", "variant_collections") if o.get(k))
        if o.get("variant_collections"):
            ctx.label("variants_present")
        multi_q = any(len(v) >= 2 for v in (o.get("qualifiers") or {}).values())
        if kinds >= 2 and (spec.get("chunk") or spec.get("genome")):
            ctx.nt()
        if multi_q:
            ctx.label("multi_value_qualifier")
    else:
        ctx.nt()
    if spec.get("chunk"):
        ctx.label("chunk_parent")
        if spec["kind"] == "collection" and spec["obj"].get("start") is not None and [spec["obj"]["start"], spec["obj"]["end"]] != list(spec["chunk"]):
            ctx.label("explicit_bounds_differ_from_chunk")
    if spec.get("genome"):
        ctx.label("with_sequence")
    if spec.get("memberless"):
        ctx.label("collection_without_genes_and_features")
    if spec.get("case_variant_keys"):
        ctx.label("qualifier_keys_differing_in_case_only")
    ctx.label("kind:" + kind)


def check_roundtrip(spec, ctx):
    labels(ctx, spec)
    kind, o = spec["kind"], spec["obj"]
    parent = parent_of(spec)
    x = BUILD[kind](o, parent)
    with_seq = parent is not None and spec.get("genome") is not None
    if spec.get("seqless"):
        ctx.label("sequence_less_parent", "sequence_less_parent:" + "+".join(sorted(k for k, v in spec["seqless"].items() if v)))
    if spec.get("derive_first"):
        # a caller derives a modified copy from an export it edits IN PLACE (identifiers dropped so that they are recomputed, a
        # qualifier added, UUIDs turned into strings for json.dumps); the untouched original must round-trip as before
        ctx.label("caller_edited_an_earlier_export")

        def edit(d):
            if isinstance(d, dict):
                for k_ in list(d):
                    v_ = d[k_]
                    if isinstance(v_, (dict, list)):
                        edit(v_)
                    elif k_.endswith("_guid") or k_ == "guid":
                        d[k_] = None
                    elif isinstance(v_, str) and (k_.endswith("_symbol") or k_.endswith("_name") or k_ == "name"):
                        d[k_] = v_ + "_copy"
                if "qualifiers" in d:
                    d["qualifiers"] = dict(d["qualifiers"] or {}, derived=["yes"])
            elif isinstance(d, list):
                for v_ in d:
                    edit(v_)
        d0 = x.to_dict()
        edit(d0)
        try:
            CLS[kind].from_dict(d0, parent_of(spec))
        except Exception:
            pass
    if kind == "cds":
        # the same CDS annotated with GFF3 phases instead of frames is the same content: same identifier, and it round-trips alike
        from inscripta.biocantor.gene.cds_frame import CDSPhase as _Ph
        from harness.build import STRAND as _ST
        xp = CDSInterval([b[0] for b in o["blocks"]], [b[1] for b in o["blocks"]], _ST[o["strand"]], [_Ph({0: 0, 1: 2, 2: 1}[f]) for f in o["frames"]],
                         parent_or_seq_chunk_parent=parent_of(spec))
        ctx.eq("cds_built_from_phases:same_guid", str(xp.guid), str(x.guid))
        ctx.true("cds_built_from_phases:equal", xp == x, repr(xp)[:80])
        yp = CDSInterval.from_dict(copy.deepcopy(xp.to_dict()), parent_of(spec))
        same_object(ctx, "dict_roundtrip_of_phase_built_cds", xp, yp, with_seq)
        ctx.label("cds_built_from_phases")
    # the exported qualifiers are the source's (equality of two exports cannot notice a key both of them lost)
    if kind in ("feat", "tx", "gene", "fc", "collection") and "qualifiers" in o:
        def qn(q):
            return {str(k_): sorted(set(str(v_) for v_ in vs_)) for k_, vs_ in (q or {}).items()}
        ctx.eq("to_dict_qualifiers_are_the_source_qualifiers", qn(x.to_dict().get("qualifiers")), qn(o.get("qualifiers")))
        if any(len(vs_) == 0 or "" in vs_ for vs_ in (o.get("qualifiers") or {}).values()):
            ctx.label("valueless_qualifier")
    # the exported blocks are the source's blocks, start paired with its own end
    if kind in ("feat", "tx") and not spec.get("chunk"):
        src = o["blocks"] if kind == "feat" else o["exons"]
        d_ = x.to_dict()
        ks, ke = ("interval_starts", "interval_ends") if kind == "feat" else ("exon_starts", "exon_ends")
        ctx.eq("to_dict_blocks_are_the_source_blocks", sorted(zip(d_[ks], d_[ke])), sorted(tuple(b_) for b_ in src))
        if any(a_[0] < b_[0] and b_[1] < a_[1] for a_ in src for b_ in src):
            ctx.label("nested_blocks")
    # dictionary export/import
    y = CLS[kind].from_dict(copy.deepcopy(x.to_dict()), parent_of(spec))
    same_object(ctx, "dict_roundtrip", x, y, with_seq)
    # an exported dictionary is the caller's document: importing it (twice, e.g. onto two parents) leaves it as exported, and the
    # second import is the same object as the first
    d1 = x.to_dict()
    snap = copy.deepcopy(d1)
    try:
        CLS[kind].from_dict(d1, parent_of(spec))
        yb = CLS[kind].from_dict(d1, parent_of(spec))
        same_object(ctx, "second_import_of_the_same_dict", x, yb, with_seq)
    except Exception as e:
        ctx.fail("second_import_of_the_same_dict_raises", repr(e)[:120])
    ctx.eq("import_leaves_the_dict_as_exported", nd(d1), nd(snap))
    if spec.get("issued_guids"):
        ctx.label("caller_issued_guids")
    # dictionary form survives JSON (UUIDs as strings are accepted back)
    if kind == "collection":
        d = x.to_dict(export_parent=True)
        ctx.label("export_parent")
        y2 = AnnotationCollection.from_dict(copy.deepcopy(d))
        same_object(ctx, "dict_roundtrip_export_parent", x, y2, with_seq)
        # the exported document (parent included) is the caller's: imported twice without a copy it stays as exported and gives the
        # same collection both times
        snap_p = copy.deepcopy(d)
        try:
            AnnotationCollection.from_dict(d)
            y2b = AnnotationCollection.from_dict(d)
            same_object(ctx, "second_import_of_the_same_dict_with_parent", x, y2b, with_seq)
        except Exception as e:
            ctx.fail("second_import_of_the_same_dict_with_parent_raises", repr(e)[:120])
        ctx.eq("import_leaves_the_dict_with_parent_as_exported", nd(d), nd(snap_p))
        if with_seq:
            ctx.eq("export_parent_sequence", str(y2.sequence), str(x.sequence))
    # schema load / dump through JSON
    if kind in MODEL:
        M, frm, to = MODEL[kind]
        if kind == "collection":
            model = M.from_annotation_collection(x, export_parent=True)
        else:
            model = getattr(M, frm)(x)
        dumped = M.Schema().dump(model)
        text = json.dumps(dumped)
        loaded = M.Schema().load(json.loads(text))
        if kind == "collection":
            y3 = loaded.to_annotation_collection()
        else:
            y3 = getattr(loaded, to)(parent_of(spec))
        same_object(ctx, "schema_roundtrip", x, y3, with_seq)
    # pickling
    if kind == "collection":
        y4 = pickle.loads(pickle.dumps(x))
        same_object(ctx, "pickle_roundtrip", x, y4, with_seq)


# ------------------------------------------------------------------------------------ identifiers

_workers = {}


def worker(hashseed):
    w = _workers.get(hashseed)
    if w is None or w.poll() is not None:
        env = dict(os.environ, PYTHONHASHSEED=str(hashseed), PYTHONPATH=os.pathsep.join([VERIF_DIR, REPO_DIR, os.path.join(VERIF_DIR, ".deps")]))
        w = subprocess.Popen([sys.executable, "-W", "ignore", "-m", "harness.guid_worker"], stdin=subprocess.PIPE, stdout=subprocess.PIPE,
                             env=env, cwd=VERIF_DIR, text=True, bufsize=1)
        _workers[hashseed] = w
    return w


def ask(hashseed, req):
    w = worker(hashseed)
    w.stdin.write(json.dumps(req) + "\n")
    w.stdin.flush()
    line = w.stdout.readline()
    if not line:
        raise RuntimeError("guid worker for hash seed %s died" % hashseed)
    return json.loads(line)


def permute_qualifiers(o, perm_seed):
    """same content, different insertion order of qualifier keys and values (recursively)"""
    def perm(lst):
        lst = list(lst)
        k = perm_seed % max(1, len(lst))
        return lst[k:] + lst[:k][::-1] if len(lst) > 1 else lst

    if isinstance(o, dict):
        out = {}
        for k, v in o.items():
            if k == "qualifiers" and isinstance(v, dict):
                keys = perm(list(v))
                out[k] = {kk: perm(v[kk]) for kk in keys}
            else:
                out[k] = permute_qualifiers(v, perm_seed)
        return out
    if isinstance(o, list):
        return [permute_qualifiers(x, perm_seed) for x in o]
    return o


def check_determinism(spec, ctx):
    labels(ctx, spec)
    kind, o = spec["kind"], spec["obj"]
    req = {"kind": kind, "spec": o, "genome": spec.get("genome"), "chunk": spec.get("chunk")}
    here = describe(kind, o, spec.get("genome"), spec.get("chunk"))
    for hs in spec["hashseeds"]:
        there = ask(hs, req)
        if "error" in there:
            ctx.fail("worker_error", there["error"])
            continue
        ctx.eq("guid_across_hash_seeds", there["guids"], here["guids"], extra={"hashseed": hs})
        ctx.eq("dict_across_hash_seeds", there["dict_md5"], here["dict_md5"], extra={"hashseed": hs})
    # qualifier insertion order
    for ps in (1, 2):
        o2 = permute_qualifiers(o, ps)
        if o2 != o or json.dumps(o2) != json.dumps(o):
            ctx.label("qualifier_order_permuted")
        there = describe(kind, o2, spec.get("genome"), spec.get("chunk"))
        ctx.eq("guid_across_qualifier_order", there["guids"], here["guids"])
        ctx.eq("dict_across_qualifier_order", there["dict_md5"], here["dict_md5"])


def check_sensitivity(spec, ctx):
    """changing one coordinate, the strand, or one frame changes the identifier of that interval and of its ancestors"""
    ctx.nt()
    g = spec["obj"]
    base = mkgene(g)
    ti = spec["tx_index"] % len(g["transcripts"])
    t = g["transcripts"][ti]
    muts = []
    # coordinate
    m = copy.deepcopy(g)
    mt = m["transcripts"][ti]
    mt["exons"][-1][1] += 1
    muts.append(("coordinate", m))
    # strand (all transcripts keep their structure; only this one flips; CDS frames re-used)
    m = copy.deepcopy(g)
    m["transcripts"][ti]["strand"] = rm.flip(t["strand"])
    muts.append(("strand", m))
    if "cds" in t:
        m = copy.deepcopy(g)
        fi = spec["frame_index"] % len(t["frames"])
        m["transcripts"][ti]["frames"][fi] = (t["frames"][fi] + 1) % 3
        muts.append(("frame", m))
        ctx.label("frame_changed")
        if t["cds"][0][1] - t["cds"][0][0] >= 2:
            m = copy.deepcopy(g)
            m["transcripts"][ti]["cds"][0][0] += 1
            muts.append(("cds_coordinate", m))
    for name, m in muts:
        mg = mkgene(m)
        ctx.true("guid_changes_with_%s:transcript" % name, str(mg.transcripts[ti].guid) != str(base.transcripts[ti].guid))
        ctx.true("guid_changes_with_%s:gene" % name, str(mg.guid) != str(base.guid))
        if name in ("frame", "cds_coordinate", "strand") and "cds" in t:
            ctx.true("guid_changes_with_%s:cds" % name, str(mg.transcripts[ti].cds.guid) != str(base.transcripts[ti].cds.guid))
        coll_a = mkcollection({"genes": [g], "name": "c"})
        coll_b = mkcollection({"genes": [m], "name": "c"})
        ctx.true("guid_changes_with_%s:collection" % name, str(coll_a.guid) != str(coll_b.guid))
        # untouched siblings keep theirs
        for j in range(len(g["transcripts"])):
            if j != ti:
                ctx.eq("sibling_guid_stable", str(mg.transcripts[j].guid), str(base.transcripts[j].guid))
    # feature
    f = spec["feature"]
    fb = mkfeat(f)
    f2 = copy.deepcopy(f)
    f2["blocks"][0][0] += 0 if f2["blocks"][0][1] - f2["blocks"][0][0] < 2 else 1
    if f2 != f:
        ctx.true("guid_changes_with_coordinate:feature", str(mkfeat(f2).guid) != str(fb.guid))
    f3 = copy.deepcopy(f)
    f3["strand"] = rm.flip(f["strand"])
    ctx.true("guid_changes_with_strand:feature", str(mkfeat(f3).guid) != str(fb.guid))


# ------------------------------------------------------------------------------------ strategies


def _nest(draw, blocks):
    """one time in five: add a block nested strictly inside one of the blocks (overlapping blocks are documented as valid; a
    later-starting block then ends before an earlier one, so starts and ends are not sorted alike)"""
    if draw(st.integers(0, 4)):
        return
    cands = [b for b in blocks if b[1] - b[0] >= 3]
    if not cands:
        return
    b = draw(st.sampled_from(cands))
    a = draw(st.integers(b[0] + 1, b[1] - 2))
    blocks.append([a, draw(st.integers(a + 1, b[1] - 1))])
    blocks.sort(key=lambda x: (x[0], x[1]))


@st.composite
def strat_obj(draw, tier="quick", kinds=("collection", "collection", "collection", "gene", "fc", "tx", "feat", "vc", "cds")):
    kind = draw(st.sampled_from(kinds))
    if kind == "collection":
        o = draw(S.collection_spec())
        hi = o.pop("hi")
        r_ = draw(st.integers(0, 9))
        if r_ == 0:
            # a collection without genes and feature collections (a window nothing is annotated in yet, or one that holds variants
            # only): it is "empty" for queries but has its own bounds, which the serialised forms must keep
            o["genes"], o["feature_collections"] = [], []
            sp_empty = True
        else:
            sp_empty = False
    elif kind == "cds":
        o = draw(S.cds_spec(max_k=4, max_len=8, overlap_prob=6))
        o.pop("genome")
        hi = o["blocks"][-1][1]
    elif kind == "gene":
        o = draw(S.gene_spec(max_tx=3, max_exons=3, max_len=8, cds_overlap_prob=8))
        hi = max(t["exons"][-1][1] for t in o["transcripts"])
    elif kind == "fc":
        o = draw(S.feature_collection_spec())
        hi = max(f["blocks"][-1][1] for f in o["features"])
    elif kind == "tx":
        o = draw(S.transcript_spec(max_exons=4, cds_overlap_prob=8))
        hi = o["exons"][-1][1]
        if "cds" not in o:
            _nest(draw, o["exons"])
    elif kind == "feat":
        o = draw(S.feature_spec())
        hi = o["blocks"][-1][1]
        _nest(draw, o["blocks"])
    else:
        vs = draw(S.variant_specs(2, 30, max_n=3))
        o = {"variants": vs, "variant_collection_name": draw(st.one_of(st.none(), S.IDENT)), "variant_collection_id": draw(st.one_of(st.none(), S.IDENT)),
             "qualifiers": draw(S.simple_qualifiers(1))}
        hi = max(v["end"] for v in vs)
    sp = {"kind": kind, "obj": o}
    explicit_bounds = kind == "collection" and (draw(st.integers(0, 2)) == 0 or sp_empty)
    if kind == "collection" and sp_empty:
        sp["memberless"] = True
    mode = draw(st.sampled_from(["none", "chrom", "chrom", "chunk", "chunk", "seqless"]))
    if mode == "seqless":
        sp["seqless"] = draw(st.sampled_from([{"id": "chr1"}, {"type": "chromosome"}, {"id": "chr1", "type": "chromosome"}, {"id": "c", "type": "contig"}]))
    elif mode != "none":
        n = hi + draw(st.integers(1, 6))
        sp["genome"] = draw(S.dna(n, n))
        if mode == "chunk":
            if kind in ("collection", "vc") or draw(st.booleans()):
                # chunk containing every member (variants must lie on the chunk to be applicable)
                cs = 0 if kind in ("collection", "vc") and draw(st.booleans()) else draw(st.integers(0, _lo(kind, o)))
                sp["chunk"] = [cs, draw(st.integers(hi, n))]
            else:
                cs = draw(st.integers(0, n - 1))
                sp["chunk"] = [cs, draw(st.integers(cs + 1, n))]
            if kind != "vc" and not (kind == "collection" and o.get("variant_collections")):
                # the chunk may be the reverse complement of its window (collections holding variants stay on forward chunks)
                sp["chunk_strand"] = draw(st.sampled_from(["+", "+", "-"]))
    if explicit_bounds:
        # collection bounds given explicitly: inside the sequence / chunk window and containing every member
        lo_m = _lo(kind, o)
        w_lo, w_hi = (sp["chunk"] if sp.get("chunk") else (0, hi + 6 if mode in ("none", "seqless") else len(sp["genome"])))
        o["start"] = draw(st.integers(w_lo, max(w_lo, lo_m)))
        o["end"] = draw(st.integers(hi, max(hi, w_hi)))
    sp["derive_first"] = draw(st.integers(0, 2)) == 0
    if S.add_case_variant_key(draw, o):
        sp["case_variant_keys"] = True
    if draw(st.integers(0, 3)) == 0:
        # identifiers issued by the caller (database keys) rather than digested from the content, on some of the objects
        def issue(d):
            if isinstance(d, dict):
                if any(k_ in d for k_ in ("exons", "blocks", "transcripts", "features", "variants", "sequence")) and "frames" not in d or "exons" in d:
                    if draw(st.integers(0, 2)) == 0:
                        d["guid"] = str(draw(st.uuids()))
                for v_ in d.values():
                    issue(v_)
            elif isinstance(d, list):
                for v_ in d:
                    issue(v_)
        issue(o)
        sp["issued_guids"] = True
    if kind in ("feat", "tx", "gene", "fc", "collection") and draw(st.integers(0, 3)) == 0:
        # flag qualifiers: a key without a value, as Biopython delivers /pseudo ([""]), or with an empty list
        o["qualifiers"] = dict(o.get("qualifiers") or {}, **{draw(st.sampled_from(["pseudo", "partial", "ribosomal_slippage"])): draw(st.sampled_from([[""], [], ["", "x"]]))})
    return sp


def _lo(kind, o):
    if kind == "collection":
        return min([t["exons"][0][0] for g_ in o["genes"] for t in g_["transcripts"]] + [f["blocks"][0][0] for c in o["feature_collections"] for f in c["features"]]
                   + [v["start"] for c in o["variant_collections"] for v in c["variants"]] or [0])
    if kind == "gene":
        return min(t["exons"][0][0] for t in o["transcripts"])
    if kind == "fc":
        return min(f["blocks"][0][0] for f in o["features"])
    if kind == "tx":
        return o["exons"][0][0]
    if kind in ("feat", "cds"):
        return o["blocks"][0][0]
    return min(v["start"] for v in o["variants"])


@st.composite
def strat_determinism(draw, tier="quick"):
    sp = draw(strat_obj(tier, kinds=("collection", "collection", "gene", "fc", "tx", "feat", "vc", "cds")) if False else strat_obj(tier))
    pool = [0, 1, 2, 3] if tier == "quick" else [0, 1, 2, 3, 17, 4242, 99991, 123456789, 7, 11, 13, 1000003, 31337, 65537, 2 ** 31 - 1, 42]
    sp["hashseeds"] = pool
    return sp


@st.composite
def strat_sensitivity(draw, tier="quick"):
    g = draw(S.gene_spec(max_tx=3, max_exons=3, max_len=8, cds_overlap_prob=8, coding=draw(st.sampled_from([True, True, None]))))
    return {"obj": g, "tx_index": draw(st.integers(0, 5)), "frame_index": draw(st.integers(0, 5)), "feature": draw(S.feature_spec())}


def pred_variant_guid_key(spec, clause, detail):
    o = spec["obj"]
    return spec["kind"] == "vc" or (spec["kind"] == "collection" and bool(o.get("variant_collections")))


PROP = Prop(
    pid="C08",
    legs=[
        Leg("roundtrip", check_roundtrip, strategy=strat_obj, n_quick=500, n_thorough=4000, shards_quick=4,
            must_hit=["variants_present", "chunk_parent", "export_parent", "explicit_bounds_differ_from_chunk", "sequence_less_parent:id", "sequence_less_parent:type", "multi_value_qualifier", "kind:gene", "kind:vc", "kind:tx", "kind:feat", "kind:fc"],
            rule="collections (genes, feature collections, variant collection) and every member class on its own, parent none / whole chromosome / chunk; from_dict(to_dict), export_parent, schema load/dump through JSON text, pickle"),
        Leg("determinism", check_determinism, strategy=strat_determinism, n_quick=120, n_thorough=800, shards_quick=4,
            must_hit=["qualifier_order_permuted"],
            rule="the same spec is built in persistent worker processes started with PYTHONHASHSEED in {0,1,2,3} (quick) / 16 values (thorough) and with permuted qualifier key/value insertion order; all identifiers and the dictionary digest must agree"),
        Leg("sensitivity", check_sensitivity, strategy=strat_sensitivity, n_quick=400, n_thorough=4000,
            must_hit=["frame_changed"],
            rule="metamorphic: one exon coordinate, the strand, one CDS frame entry or one CDS coordinate of one transcript is changed; the transcript's, (CDS's,) gene's and collection's identifiers must change and the siblings' must not"),
    ],
    rule="Oracle: round trip (equal object, identifier, dictionary, qualifiers, sequences), cross-process agreement, metamorphic sensitivity. "
         "Non-trivial: collection with >=2 member kinds on a parent, or any stand-alone member. Distinct = canonical JSON.",
    assumptions=[
        "'every process' is sampled by a finite PYTHONHASHSEED sweep; no claim beyond the seeds run",
        "variant collections are placed after all genes/features so that haplotype incorporation (C13) is not exercised here",
        "runs through the marshmallow 4 compat shim (harness/compat.py)",
    ],
    predicates={"variant_guid_key": pred_variant_guid_key},
)
