"""C02 — location set algebra equals position-set semantics; results are normalised."""
from hypothesis import strategies as st

import harness.compat  # noqa: F401
from harness import refmodel as rm
from harness import strategies as S
from harness.build import mkloc, mkloc_blocks, STRAND, seq_parent
from harness.core import Leg, Prop
from inscripta.biocantor import DistanceType
from inscripta.biocantor.exc import (
    InvalidPositionException,
    InvalidStrandException,
    MismatchedParentException,
    EmptyLocationException,
    LocationException,
)
from inscripta.biocantor.location.location_impl import SingleInterval, CompoundInterval, EmptyLocation
from inscripta.biocantor.parent import Parent

FLAGS2 = [(False, False), (False, True), (True, False), (True, True)]


def span(blocks):
    ne = [b for b in blocks]
    return (min(b[0] for b in ne), max(b[1] for b in ne))


def mask_blocks(mask, n):
    return rm.blocks_of_set({i for i in range(n) if mask >> i & 1})


def check_result(ctx, clause, res, exp_set, exp_strand, optimized=True, parent_len=None, multiset=None):
    """result location equals the expected position set, is well formed, on the promised strand"""
    if not exp_set and multiset is None:
        if not ctx.true(clause + ":expected_empty", len(res) == 0, repr(res)):
            return
        # an empty result is the EmptyLocation singleton when optimisation is promised
        if optimized:
            ctx.true(clause + ":empty_singleton", res is EmptyLocation(), repr(res))
        return
    rm.wellformed(res, ctx, clause, optimized=optimized, parent_len=parent_len, expect_strand=exp_strand)
    got = rm.posset(rm.loc_blocks(res)) if not res.is_empty or type(res).__name__ != "_EmptyLocation" else set()
    if multiset is not None:
        gl = sorted(p for s, e in rm.loc_blocks(res) for p in range(s, e))
        ctx.eq(clause + ":position_multiset", gl, sorted(multiset))
    else:
        ctx.eq(clause + ":position_set", sorted(got), sorted(exp_set))
    # merging the overlaps of a RESULT gives its position set in blocks that no longer overlap
    try:
        m = res.merge_overlapping()
        mb = rm.loc_blocks(m)
        ctx.eq(clause + ":merged_result_position_set", sorted(rm.posset(mb)), sorted(got))
        ctx.true(clause + ":merged_result_no_overlap", all(mb[i][1] <= mb[i + 1][0] for i in range(len(mb) - 1)), mb)
    except Exception as e:
        ctx.fail(clause + ":merged_result_raises", repr(e)[:100])


def algebra(ctx, A, B, a, b, sa, sb, pa, pb, normalized, self_overlap, parent_len=None, same_parent=True):
    """A,B library locations; a,b block lists; sa,sb strand symbols; pa,pb position sets"""
    spa, spb = span(a), span(b)
    lena, lenb = sum(e - s for s, e in a), sum(e - s for s, e in b)
    before = [(rm.loc_blocks(X), [(x.start, x.end) for x in X.blocks], rm.loc_strand(X), len(X)) for X in (A, B)]
    try:
        _algebra(ctx, A, B, a, b, sa, sb, pa, pb, normalized, self_overlap, parent_len, same_parent, spa, spb, lena, lenb)
    finally:
        # the operands are values: no operation above rewrote, reordered or extended either of them
        after = [(rm.loc_blocks(X), [(x.start, x.end) for x in X.blocks], rm.loc_strand(X), len(X)) for X in (A, B)]
        ctx.eq("operands_unchanged_by_the_algebra", after, before)


def _algebra(ctx, A, B, a, b, sa, sb, pa, pb, normalized, self_overlap, parent_len, same_parent, spa, spb, lena, lenb):
    for ms, fs in FLAGS2:
        strand_ok = (not ms) or sa == sb
        if fs:
            ov = strand_ok and same_parent and max(spa[0], spb[0]) < min(spa[1], spb[1]) and lena > 0 and lenb > 0
        else:
            ov = strand_ok and same_parent and bool(pa & pb)
        got = A.has_overlap(B, match_strand=ms, full_span=fs)
        ctx.eq("has_overlap[ms=%d,fs=%d]" % (ms, fs), got, ov)
        ctx.true("has_overlap_is_a_bool", type(got) is bool, type(got).__name__)
        # intersection
        res = A.intersection(B, match_strand=ms, full_span=fs)
        if not ov:
            ctx.true("intersection_empty[ms=%d,fs=%d]" % (ms, fs), res is EmptyLocation(), repr(res))
        else:
            exp = set(range(max(spa[0], spb[0]), min(spa[1], spb[1]))) if fs else pa & pb
            check_result(ctx, "intersection[ms=%d,fs=%d]" % (ms, fs), res, exp, sa, optimized=False, parent_len=parent_len)
        # containment (claimed for operands without self-overlap)
        if not self_overlap:
            if fs:
                exp_c = ov and spa[0] <= spb[0] and spb[1] <= spa[1]
            else:
                exp_c = ov and pb <= pa
            got_c = A.contains(B, match_strand=ms, full_span=fs)
            ctx.eq("contains[ms=%d,fs=%d]" % (ms, fs), got_c, exp_c)
            ctx.true("contains_is_a_bool", type(got_c) is bool, type(got_c).__name__)
    # difference (claimed for operands without self-overlap)
    if not self_overlap:
        for ms in (False, True):
            strand_ok = (not ms) or sa == sb
            res = A.minus(B, match_strand=ms)
            exp = pa - pb if (strand_ok and same_parent) else set(pa)
            unchanged = exp == pa
            check_result(ctx, "minus[ms=%d]" % ms, res, exp, sa, optimized=False, parent_len=parent_len)
    # union
    if sa != sb:
        for name, fn, excs in (("union", A.union, (ValueError,)), ("union_preserve_overlaps", A.union_preserve_overlaps, (InvalidStrandException, ValueError))):
            try:
                r = fn(B)
                ctx.fail(name + "_strand_mismatch_accepted", repr(r))
            except excs:
                pass
    elif same_parent:
        res = A.union(B)
        check_result(ctx, "union", res, pa | pb, sa, optimized=False, parent_len=parent_len)
        res2 = B.union(A)
        ctx.eq("union_commutes", (rm.loc_blocks(res), rm.loc_strand(res)), (rm.loc_blocks(res2), rm.loc_strand(res2)))
        res = A.union_preserve_overlaps(B)
        ms_exp = [p for s, e in a for p in range(s, e)] + [p for s, e in b for p in range(s, e)]
        check_result(ctx, "union_preserve_overlaps", res, None, sa, optimized=len(set(ms_exp)) == len(ms_exp), parent_len=parent_len, multiset=ms_exp)
        res2 = B.union_preserve_overlaps(A)
        ctx.eq("union_preserve_overlaps_commutes", sorted(rm.loc_blocks(res)), sorted(rm.loc_blocks(res2)))
    # distance
    if same_parent:
        exp_d = {
            DistanceType.STARTS: abs(spa[0] - spb[0]),
            DistanceType.ENDS: abs(spa[1] - spb[1]),
            DistanceType.OUTER: max(abs(spa[0] - spb[1]), abs(spa[1] - spb[0])),
            DistanceType.INNER: min(
                (0 if (x[1] > x[0] and y[1] > y[0] and max(x[0], y[0]) < min(x[1], y[1])) else min(abs(x[0] - y[1]), abs(x[1] - y[0])))
                for x in a for y in b
            ),
        }
        for dt, exp in exp_d.items():
            got_d = A.distance_to(B, dt)
            ctx.eq("distance_%s" % dt.value, got_d, exp)
            ctx.true("distance_is_a_plain_int", type(got_d) is int, type(got_d).__name__)
            ctx.eq("distance_commutes_%s" % dt.value, B.distance_to(A, dt), exp)


def unary(ctx, A, a, sa, pa, normalized, self_overlap, parent_len=None, ext=(1, 2), shift=3):
    spa = span(a)
    ne = rm.sorted_blocks(a)
    # optimisation
    res = A.optimize_blocks()
    ms = [p for s, e in a for p in range(s, e)]
    if not ms:
        ctx.true("optimize_blocks_all_empty", res is EmptyLocation(), repr(res))
    else:
        check_result(ctx, "optimize_blocks", res, None, sa, optimized=not self_overlap, parent_len=parent_len, multiset=ms)
        if self_overlap:
            ctx.true("optimize_blocks:no_empty_block", all(e > s for s, e in rm.loc_blocks(res)))
        if type(A) is CompoundInterval:
            res = A.optimize_and_combine_blocks()
            check_result(ctx, "optimize_and_combine_blocks", res, pa, sa, optimized=True, parent_len=parent_len)
            ctx.eq("optimize_and_combine_blocks:maximal_runs", rm.loc_blocks(res), rm.blocks_of_set(pa))
        res = A.merge_overlapping()
        check_result(ctx, "merge_overlapping", res, pa, sa, optimized=False, parent_len=parent_len)
        mb = rm.loc_blocks(res)
        ctx.true("merge_overlapping:no_overlap", all(mb[i][1] <= mb[i + 1][0] for i in range(len(mb) - 1)), mb)
        if all(e > s for s, e in a):
            ctx.eq("is_overlapping", A.is_overlapping, self_overlap)
        # gaps
        exp_gaps = set(range(spa[0], spa[1])) - pa
        # an empty block at the outer edge widens the span without covering anything; gaps are claimed between blocks
        inner = set(range(ne[0][0], ne[-1][1])) - pa
        try:
            gl = A.gap_list()
        except InvalidStrandException:
            # 5'->3' order of the gaps of an unstranded multi-block location is undefined: documented refusal
            ctx.true("gap_list_refused_stranded", sa == "." and type(A) is CompoundInterval)
            ctx.refuse("gap_list_unstranded")
            gl = None
        if gl is None:
            return_gaps = False
        else:
            return_gaps = True
        got_gaps = [(g.start, g.end) for g in gl] if return_gaps else None
        exp_gl = rm.blocks_of_set(inner)
        if sa == "-":
            exp_gl = list(reversed(exp_gl))
        if return_gaps:
            ctx.eq("gap_list", got_gaps, exp_gl)
            ctx.true("gap_list_strand", all(g.strand.to_symbol() == sa for g in gl))
            gloc = A.gaps_location()
            check_result(ctx, "gaps_location", gloc, inner, sa, optimized=False, parent_len=parent_len)
        ctx.eq("is_contiguous", A.is_contiguous if normalized else None, (len(rm.blocks_of_set(pa)) == 1) if normalized else None)
    # strand changes
    r = A.reverse_strand()
    ctx.eq("reverse_strand", (sorted(rm.loc_blocks(r)), rm.loc_strand(r)), (sorted(rm.loc_blocks(A)), rm.flip(sa)))
    for ns in "+-.":
        r = A.reset_strand(STRAND[ns])
        ctx.eq("reset_strand:set", (sorted(rm.posset(rm.loc_blocks(r))), rm.loc_strand(r)), (sorted(pa), ns))
    r = A.reverse()
    refl = {spa[0] + spa[1] - 1 - p for p in pa} if type(A) is CompoundInterval else set(pa)
    ctx.eq("reverse", (sorted(rm.posset(rm.loc_blocks(r))), rm.loc_strand(r)), (sorted(refl), rm.flip(sa)))
    # shift
    for n in (shift, -shift, -spa[0], -spa[0] - 1):
        ok = spa[0] + n >= 0 and (parent_len is None or spa[1] + n <= parent_len)
        try:
            r = A.shift_position(n)
            if not ok:
                ctx.fail("shift_position_out_of_bounds_accepted", {"n": n, "res": repr(r)})
            else:
                ctx.eq("shift_position", (sorted(rm.posset(rm.loc_blocks(r))), rm.loc_strand(r)), (sorted(p + n for p in pa), sa))
        except InvalidPositionException:
            ctx.true("shift_position_refused_valid", not ok, n)
    # extension
    if ms:
        for es, ee in (ext, (0, 0), (ext[1], 0), (0, ext[0]), (spa[0], 0), (spa[0] + 1, 0)):
            ok = spa[0] - es >= 0 and (parent_len is None or spa[1] + ee <= parent_len)
            exp = pa | set(range(spa[0] - es, spa[0])) | set(range(spa[1], spa[1] + ee))
            try:
                r = A.extend_absolute(es, ee)
                if not ok:
                    ctx.fail("extend_absolute_out_of_bounds_accepted", {"ext": [es, ee], "res": repr(r)})
                else:
                    check_result(ctx, "extend_absolute", r, exp, sa, optimized=False, parent_len=parent_len)
            except InvalidPositionException:
                ctx.true("extend_absolute_refused_valid", not ok, [es, ee])
            # relative
            try:
                r = A.extend_relative(es, ee)
                ctx.true("extend_relative_unstranded_accepted", sa != ".", repr(r))
                if sa == "+":
                    exp_r, ok_r = exp, ok
                else:
                    ok_r = spa[0] - ee >= 0 and (parent_len is None or spa[1] + es <= parent_len)
                    exp_r = pa | set(range(spa[0] - ee, spa[0])) | set(range(spa[1], spa[1] + es))
                if not ok_r:
                    ctx.fail("extend_relative_out_of_bounds_accepted", {"ext": [es, ee], "res": repr(r)})
                else:
                    ctx.eq("extend_relative", (sorted(rm.posset(rm.loc_blocks(r))), rm.loc_strand(r)), (sorted(exp_r), sa))
            except InvalidStrandException:
                ctx.true("extend_relative_refused_stranded", sa == ".")
            except InvalidPositionException:
                if sa == "+":
                    ctx.true("extend_relative_refused_valid", not ok, [es, ee])
        for bad in ((-1, 0), (0, -1)):
            try:
                A.extend_absolute(*bad)
                ctx.fail("extend_absolute_negative_accepted", bad)
            except ValueError:
                pass


# ------------------------------------------------------------------------------------ exhaustive leg


def enum_pairs(tier, shard, nshards):
    n = 7 if tier == "quick" else 9
    i = 0
    for ma in range(1, 1 << n):
        for mb in range(1, 1 << n):
            i += 1
            if i % nshards != shard:
                continue
            yield {"n": n, "a": ma, "b": mb}


def check_pairs(spec, ctx):
    n = spec["n"]
    a, b = mask_blocks(spec["a"], n), mask_blocks(spec["b"], n)
    pa, pb = rm.posset(a), rm.posset(b)
    ctx.nt()
    if any(x[1] == y[0] or y[1] == x[0] for x in a for y in b):
        ctx.label("touching")
    if pa < pb or pb < pa:
        ctx.label("nested")
    if pa & pb and not (pa <= pb or pb <= pa):
        ctx.label("interleaved")
    if not (pa & pb) and max(span(a)[0], span(b)[0]) < min(span(a)[1], span(b)[1]):
        ctx.label("full_span&gap_overlap")
    for sa in "+-.":
        A = mkloc_blocks(a, sa)
        if spec["b"] == 1:
            unary(ctx, A, a, sa, pa, True, False)
        for sb in "+-.":
            B = mkloc_blocks(b, sb)
            if sa != sb:
                ctx.label("strand_mismatch&match_strand")
            algebra(ctx, A, B, a, b, sa, sb, pa, pb, True, False)


# ------------------------------------------------------------------------------------ random leg


@st.composite
def strat_random(draw, tier="quick"):
    big = tier == "thorough"
    kw = dict(max_k=5, max_len=10 if big else 6, max_gap=5, max_start=8, shift_prob=0, strands=["+", "-", "+", "-", "."])
    ov = draw(st.integers(0, 3)) == 0
    A = draw(S.location_spec(allow_overlap=ov, allow_nested=True, **kw))
    B = draw(S.location_spec(allow_overlap=draw(st.integers(0, 4)) == 0, allow_nested=True, **kw))
    if draw(st.booleans()):
        B["strand"] = A["strand"]
    hi = max(max(b[1] for b in A["blocks"]), max(b[1] for b in B["blocks"]))
    pm = draw(st.sampled_from(["none", "none", "same_id", "same_seq", "same_seq", "diff_id", "one_none", "diff_seq"]))
    glen = hi + draw(st.sampled_from([0, 0, 1, 3, 10]))
    return {"a": A, "b": B, "parents": pm, "glen": glen, "ext": [draw(st.integers(0, 4)), draw(st.integers(0, 4))], "shift": draw(st.integers(1, 5))}


def check_random(spec, ctx):
    A_s, B_s = spec["a"], spec["b"]
    a, b = A_s["blocks"], B_s["blocks"]
    pm = spec["parents"]
    glen = spec["glen"]
    parent_len = None
    same_parent = True
    PA = PB = None
    if pm == "same_id":
        PA = PB = Parent(id="chrA", sequence_type="chromosome")
    elif pm == "same_seq":
        PA = PB = seq_parent("ACGT" * (glen // 4 + 1), pid="chrA")
        PA = PB = seq_parent(("ACGT" * (glen // 4 + 1))[:glen], pid="chrA")
        parent_len = glen
    elif pm == "diff_id":
        PA, PB = Parent(id="chrA"), Parent(id="chrB")
        same_parent = False
    elif pm == "one_none":
        PA, PB = Parent(id="chrA"), None
        same_parent = False
    elif pm == "diff_seq":
        PA = seq_parent(("ACGT" * (glen // 4 + 1))[:glen], pid="chrA")
        PB = seq_parent(("TTGA" * (glen // 4 + 2))[:glen + 1], pid="chrA")
        same_parent = False
        parent_len = glen
    if pm in ("same_seq",):
        ctx.label("parent_with_sequence")
    if not same_parent:
        ctx.label("mismatched_parents")
    A, B = mkloc(A_s, PA), mkloc(B_s, PB)
    sa, sb = A_s["strand"], B_s["strand"]
    pa, pb = rm.posset(a), rm.posset(b)
    so = rm.has_self_overlap(a) or rm.has_self_overlap(b)
    if so:
        ctx.label("self_overlapping_operand")
        for bl_ in (a, b):
            ne_ = rm.sorted_blocks(bl_)
            if any(x[0] <= y[0] and y[1] <= x[1] and x != y for x in ne_ for y in ne_):
                ctx.label("nested_operand")
    if any(x[0] == x[1] for x in a + b):
        ctx.label("empty_block_in_operand")
    norm = lambda bl: [tuple(x) for x in bl] == rm.blocks_of_set(rm.posset(bl)) and not rm.has_self_overlap(bl)  # noqa: E731
    normalized = norm(a) and norm(b)
    ctx.nt()
    if same_parent:
        algebra(ctx, A, B, a, b, sa, sb, pa, pb, normalized, so, parent_len=parent_len, same_parent=True)
        unary(ctx, A, a, sa, pa, norm(a), rm.has_self_overlap(a), parent_len=parent_len if pm != "same_id" else None, ext=tuple(spec["ext"]), shift=spec["shift"])
        # parent of results is the operands' parent without location
        if PA is not None:
            r = A.intersection(B, match_strand=False)
            if not r.is_empty:
                ctx.true("result_parent_kept", r.parent is not None and r.parent.id == "chrA" and r.parent.equals_except_location(PA), repr(r.parent))
    else:
        # mismatched parents: non-strict => no overlap / empty / unchanged; strict => MismatchedParentException
        for ms, fs in FLAGS2:
            ctx.eq("mismatch_has_overlap", A.has_overlap(B, ms, fs), False)
            ctx.true("mismatch_intersection", A.intersection(B, ms, fs) is EmptyLocation())
            if not so:
                ctx.eq("mismatch_contains", A.contains(B, ms, fs), False)
        if not so:
            r = A.minus(B, match_strand=False)
            ctx.eq("mismatch_minus_unchanged", sorted(rm.posset(rm.loc_blocks(r))), sorted(pa))
        for name, call in (
            ("has_overlap", lambda: A.has_overlap(B, strict_parent_compare=True)),
            ("intersection", lambda: A.intersection(B, strict_parent_compare=True)),
            ("minus", lambda: A.minus(B, strict_parent_compare=True)),
            ("contains", lambda: A.contains(B, strict_parent_compare=True)),
            ("distance_to", lambda: A.distance_to(B)),
        ):
            try:
                r = call()
                ctx.fail("strict_parent_compare_not_enforced:" + name, repr(r))
            except MismatchedParentException:
                pass
        if sa == sb:
            try:
                r = A.union(B)
                ctx.fail("union_mismatched_parents_accepted", repr(r))
            except (MismatchedParentException, ValueError):
                pass


def enum_empty(tier, shard, nshards):
    i = 0
    for sa in "+-.":
        for bl in ([[2, 5]], [[0, 2], [4, 6]], [[3, 3]]):
            i += 1
            if i % nshards == shard:
                yield {"blocks": bl, "strand": sa}


def check_empty_operand(spec, ctx):
    """_EmptyLocation as either operand"""
    ctx.nt("empty_operand")
    E = EmptyLocation()
    A = mkloc_blocks(spec["blocks"], spec["strand"])
    pa = rm.posset(spec["blocks"])
    for ms, fs in FLAGS2:
        ctx.eq("empty_has_overlap_l", E.has_overlap(A, ms, fs), False)
        ctx.true("empty_intersection_l", E.intersection(A, ms, fs) is E)
        # EmptyLocation on the right: with match_strand the strand of the empty location is asked for, which the
        # library documents as EmptyLocationException; that refusal is accepted, a wrong answer is not
        try:
            ctx.eq("empty_has_overlap_r", A.has_overlap(E, ms, fs), False)
            ctx.true("empty_intersection_r", A.intersection(E, ms, fs) is E)
        except EmptyLocationException:
            ctx.true("empty_right_refused_without_match_strand", ms)
            ctx.refuse("empty_right_match_strand")
    ctx.true("empty_minus_l", E.minus(A) is E)
    r = A.minus(E, match_strand=False)
    ctx.eq("empty_minus_r", sorted(rm.posset(rm.loc_blocks(r))), sorted(pa))
    ctx.true("empty_optimize", E.optimize_blocks() is E and E.merge_overlapping() is E and E.gaps_location() is E and E.gap_list() == [])
    ctx.true("empty_reverse", E.reverse() is E and E.reverse_strand() is E)
    for name, call in (("union", lambda: E.union(A)), ("union_preserve_overlaps", lambda: E.union_preserve_overlaps(A)),
                       ("extend_absolute", lambda: E.extend_absolute(1, 1)), ("distance_to", lambda: E.distance_to(A)),
                       ("shift_position", lambda: E.shift_position(1))):
        try:
            r = call()
            ctx.fail("empty_" + name + "_accepted", repr(r))
        except EmptyLocationException:
            pass


def known_pred_none(spec, clause, detail):
    return True


PROP = Prop(
    pid="C02",
    legs=[
        Leg("exhaustive_pairs", check_pairs, enumerate=enum_pairs, exhaustive=True, shards_quick=16, shards_thorough=16,
            must_hit=["touching", "nested", "interleaved", "full_span&gap_overlap", "strand_mismatch&match_strand"],
            rule="ALL ordered pairs of normalised locations (non-empty subsets) over a 7-base (quick) / 9-base (thorough) genome x all 9 strand pairs x all match_strand/full_span combinations; every binary operation, plus every unary operation per location"),
        Leg("random_operands", check_random, strategy=strat_random, n_quick=700, n_thorough=6000, shards_quick=4,
            must_hit=["parent_with_sequence", "self_overlapping_operand", "nested_operand", "mismatched_parents", "empty_block_in_operand"],
            rule="random operands with their own empty/adjacent/overlapping blocks, shuffled constructor order, with/without parents (id only, with sequence, mismatched id, mismatched sequence, one missing), random extensions and shifts"),
        Leg("operands_coverage_guided", check_random, fuzz_of="random_operands", n_quick=200, n_thorough=8000, shards_quick=2, shards_thorough=8,
            rule="coverage-guided: the `random_operands` leg's strategy driven by atheris/libFuzzer through hypothesis.fuzz_one_input with the `inscripta` package instrumented (fresh empty corpus, budget in runs; same check, clauses and known-finding predicates; failures collected unshrunk)"),
        Leg("empty_operand", check_empty_operand, enumerate=enum_empty, exhaustive=True, shards_quick=1, shards_thorough=1,
            rule="EmptyLocation as left/right operand of every operation"),
    ],
    rule="Oracle: operations on Python sets of covered parent positions; flags as documented. Non-trivial: every pair "
         "(all pairs touch, nest, interleave, or differ in strand in some strand combination). Distinct = canonical JSON.",
    assumptions=[
        "difference and containment are checked only for operands whose own blocks do not overlap each other (as the property states)",
        "cgranges is not installed: the cgranges branch of CompoundInterval intersection is unreachable here",
        "gap_list/gaps_location are compared with the gaps between the first and last non-empty block",
    ],
    predicates={"any": known_pred_none},
)
