"""C06 — genome, transcript and CDS coordinate systems of a transcript commute; UTR/intron partition."""
from hypothesis import strategies as st

import harness.compat  # noqa: F401
from harness import refmodel as rm
from harness import strategies as S
from harness.build import mktx, chrom_parent, chunk_parent, STRAND
from harness.core import Leg, Prop
from inscripta.biocantor.exc import InvalidPositionException, NoncodingTranscriptError, LocationOverlapException

REJECT = (InvalidPositionException, ValueError)


def expect_reject(ctx, clause, fn, *a):
    try:
        r = fn(*a)
        ctx.fail(clause, {"args": list(a), "got": repr(r)[:80]})
    except REJECT:
        pass


def check_tx(spec, ctx):
    ex, strand = spec["exons"], spec["strand"]
    T = rm.positions(ex, strand)
    n = len(T)
    g = spec.get("genome")
    chunk = spec.get("chunk") if g else None
    cst = spec.get("chunk_strand", "+") if chunk else "+"
    parent = (chunk_parent(g, chunk[0], chunk[1], strand=cst, idiom=spec.get("chunk_idiom", "api")) if chunk else chrom_parent(g)) if g else None
    if g and not chunk and spec.get("untyped_parent"):
        # a parent that carries the sequence and a name but no sequence type (the idiom of the library's own docstrings and tests)
        from inscripta.biocantor.parent import Parent as _P
        from inscripta.biocantor.sequence import Sequence as _S
        from inscripta.biocantor.sequence.alphabet import Alphabet as _A
        parent = _P(id="chr1", sequence=_S(g, _A.NT_EXTENDED_GAPPED, id="chr1"))
        ctx.label("parent_without_sequence_type")
    if chunk and cst == "-":
        ctx.label("minus_strand_chunk")
    if chunk and spec.get("chunk_idiom") == "docstring":
        ctx.label("chunk_parent_docstring_idiom")
    tx = mktx(spec, parent)
    if chunk:
        # the same transcript seen through a sequence chunk: every chromosome-coordinate conversion must answer as without it
        inside = [p for p in T if chunk[0] <= p < chunk[1]]
        ctx.label("on_chunk", "chunk_cuts_transcript" if 0 < len(inside) < len(T) else ("chunk_misses_transcript" if not inside else "chunk_contains_transcript"))
    coding = "cds" in spec
    multi = len(ex) > 1
    if strand == "-":
        ctx.label("minus")
    if len(ex) >= 8:
        ctx.label("exons>=8")
    lo, hi = ex[0][0], ex[-1][1]
    ctx.eq("len_transcript", len(tx), n)
    if spec.get("exon_order") and spec["exon_order"] != sorted(spec["exon_order"]):
        ctx.label("exons_given_unsorted")
        ctx.eq("unsorted_exons_same_blocks", rm.loc_blocks(tx.chromosome_location), [tuple(b) for b in rm.sorted_blocks(ex)])
    # --- transcript <-> chromosome
    for t, p in enumerate(T):
        ctx.eq("transcript_pos_to_sequence", tx.transcript_pos_to_sequence(t), p)
        ctx.eq("sequence_pos_to_transcript", tx.sequence_pos_to_transcript(p), t)
        if not chunk:
            ctx.eq("chunk_relative_pos_to_transcript", tx.chunk_relative_pos_to_transcript(p), t)
            ctx.eq("transcript_pos_to_chunk_relative", tx.transcript_pos_to_chunk_relative(t), p)
    tset = set(T)
    for p in range(max(0, lo - 1), hi + 2):
        if p not in tset:
            expect_reject(ctx, "sequence_pos_to_transcript_outside_accepted", tx.sequence_pos_to_transcript, p)
    for t in (-1, n, n + 1):
        expect_reject(ctx, "transcript_pos_out_of_range_accepted", tx.transcript_pos_to_sequence, t)
    # intervals
    for a, b in spec["tx_intervals"]:
        a, b = a % (n + 1), b % (n + 1)
        a, b = min(a, b), max(a, b)
        if a == b:
            continue
        for rs in "+-":
            res = tx.transcript_interval_to_sequence(a, b, STRAND[rs])
            want = T[a:b] if rs == "+" else T[a:b][::-1]
            ctx.eq("transcript_interval_to_sequence", rm.loc_positions(res), want, extra=[a, b, rs])
            ctx.eq("transcript_interval_to_sequence_strand", rm.loc_strand(res), rm.compose(strand, rs))
    for cs, ce in spec["chr_intervals"]:
        cs, ce = lo - 1 + cs % (hi - lo + 2), lo - 1 + ce % (hi - lo + 2)
        cs, ce = max(0, min(cs, ce)), max(cs, ce) + 1
        common = [t for t, p in enumerate(T) if cs <= p < ce]
        for qs in "+-":
            try:
                res = tx.sequence_interval_to_transcript(cs, ce, STRAND[qs])
            except LocationOverlapException:
                ctx.true("sequence_interval_to_transcript_refused_overlapping", not common, [cs, ce])
                continue
            ctx.eq("sequence_interval_to_transcript", sorted(rm.loc_positions(res)), common, extra=[cs, ce])
            ctx.eq("sequence_interval_to_transcript_strand", rm.loc_strand(res), rm.compose(qs, strand))
    # --- introns and span
    intr = tx.chromosome_intron_location
    exp_intr = set(range(lo, hi)) - tset
    ctx.eq("intron_positions", sorted(rm.posset(rm.loc_blocks(intr))) if not intr.is_empty else [], sorted(exp_intr))
    sp_loc = tx.chromosome_span
    ctx.eq("chromosome_span", (sp_loc.start, sp_loc.end), (lo, hi))
    if multi:
        ctx.eq("intron_strand", rm.loc_strand(intr) if exp_intr else strand, strand)
    # --- non-coding refusals
    if not coding:
        ctx.nt("noncoding") if multi else ctx.label("noncoding")
        for name, call in (("sequence_pos_to_cds", lambda: tx.sequence_pos_to_cds(T[0])), ("cds_pos_to_transcript", lambda: tx.cds_pos_to_transcript(0)),
                           ("transcript_pos_to_cds", lambda: tx.transcript_pos_to_cds(0)), ("get_5p_interval", tx.get_5p_interval),
                           ("get_3p_interval", tx.get_3p_interval), ("cds_pos_to_sequence", lambda: tx.cds_pos_to_sequence(0)),
                           ("cds_interval_to_sequence", lambda: tx.cds_interval_to_sequence(0, 1, STRAND["+"])),
                           ("cds_location", lambda: tx.cds_location), ("cds_start", lambda: tx.cds_start)):
            try:
                r = call()
                ctx.fail("noncoding_accepted:" + name, repr(r)[:60])
            except NoncodingTranscriptError:
                pass
        ctx.eq("noncoding_is_coding", tx.is_coding, False)
        ctx.eq("noncoding_cds_size", tx.cds_size, 0)
        return
    # --- CDS
    i, j = spec["cds_i"], spec["cds_j"]
    # the CDS is the ordered list of positions of its blocks; normally the contiguous run T[i:j], but a +1 programmed
    # frameshift (a base inside an exon skipped by the CDS) makes it a proper sub-sequence of that run
    C = rm.positions(spec["cds"], strand)
    gapped = bool(spec.get("cds_gapped"))
    # a -1 programmed frameshift (two CDS blocks overlapping by a base or two): the overlapped bases occur twice in the CDS, so
    # a chromosome position may have two CDS positions (either is a right answer) and sub-intervals are compared as multisets
    # where a Location cannot represent the order (C01 findings F1/F2)
    overlapped = bool(spec.get("cds_overlapped"))
    if overlapped:
        ctx.nt("cds_with_overlapping_blocks")
        ctx.eq("generator_consistency", sorted(set(C)), sorted(T[i:j]))
    elif not gapped:
        ctx.eq("generator_consistency", C, T[i:j])
    else:
        ctx.nt("cds_with_skipped_base")
    pre = {}
    for c_, p_ in enumerate(C):
        pre.setdefault(p_, []).append(c_)
    tindex = {p: t for t, p in enumerate(T)}
    m = len(C)
    cset = set(C)
    ctx.eq("cds_len", tx.cds_size, m)
    ctx.eq("len_cds", len(tx.cds), m)
    ctx.eq("cds_start_end", (tx.cds_start, tx.cds_end), (min(C), max(C) + 1))
    if multi and i == 0:
        ctx.nt("cds_reaches_5p&multi_exon")
    if multi and j == n:
        ctx.nt("cds_reaches_3p&multi_exon")
    bounds = set()
    off = 0
    for s, e in (ex if strand == "+" else list(reversed(ex))):
        bounds.add(off)
        off += e - s
        bounds.add(off)
    if multi and (i in bounds or j in bounds) and 0 < i and j < n:
        ctx.nt("cds_on_exon_boundary")
    if not multi and i == 0 and j == n:
        ctx.label("single_exon_full_cds")
    if multi and strand == "-":
        ctx.nt()
    for c, p in enumerate(C):
        ctx.eq("cds_pos_to_sequence", tx.cds_pos_to_sequence(c), p)
        ctx.true("sequence_pos_to_cds", tx.sequence_pos_to_cds(p) in pre[p], {"got": tx.sequence_pos_to_cds(p), "expected": pre[p]})
        ctx.eq("cds_pos_to_transcript", tx.cds_pos_to_transcript(c), tindex[p])
        ctx.true("transcript_pos_to_cds", tx.transcript_pos_to_cds(tindex[p]) in pre[p], {"got": tx.transcript_pos_to_cds(tindex[p]), "expected": pre[p]})
        # chromosome -> CDS equals chromosome -> transcript -> CDS
        ctx.eq("path_commutes", tx.transcript_pos_to_cds(tx.sequence_pos_to_transcript(p)), tx.sequence_pos_to_cds(p))
        ctx.true("sequence_pos_to_amino_acid", tx.cds.sequence_pos_to_amino_acid(p) in [c_ // 3 for c_ in pre[p]], {"got": tx.cds.sequence_pos_to_amino_acid(p), "expected": [c_ // 3 for c_ in pre[p]]})
        if not chunk:
            ctx.eq("cds_pos_to_chunk_relative", tx.cds_pos_to_chunk_relative(c), p)
            ctx.true("chunk_relative_pos_to_cds", tx.chunk_relative_pos_to_cds(p) in pre[p], {"got": tx.chunk_relative_pos_to_cds(p), "expected": pre[p]})
    for t, p in enumerate(T):
        if p not in cset:
            expect_reject(ctx, "sequence_pos_to_cds_outside_accepted", tx.sequence_pos_to_cds, p)
            expect_reject(ctx, "transcript_pos_to_cds_outside_accepted", tx.transcript_pos_to_cds, t)
            expect_reject(ctx, "amino_acid_outside_accepted", tx.cds.sequence_pos_to_amino_acid, p)
    for c in (-1, m, m + 1):
        expect_reject(ctx, "cds_pos_out_of_range_accepted", tx.cds_pos_to_sequence, c)
        expect_reject(ctx, "cds_pos_to_transcript_out_of_range_accepted", tx.cds_pos_to_transcript, c)
    for a, b in spec["tx_intervals"]:
        a, b = a % (m + 1), b % (m + 1)
        a, b = min(a, b), max(a, b)
        if a == b:
            continue
        for rs in "+-":
            res = tx.cds_interval_to_sequence(a, b, STRAND[rs])
            want = C[a:b] if rs == "+" else C[a:b][::-1]
            if overlapped:
                ctx.eq("cds_interval_to_sequence", sorted(rm.loc_positions(res)), sorted(want), extra=[a, b, rs])
            else:
                ctx.eq("cds_interval_to_sequence", rm.loc_positions(res), want, extra=[a, b, rs])
    for cs, ce in spec["chr_intervals"]:
        cs, ce = lo - 1 + cs % (hi - lo + 2), lo - 1 + ce % (hi - lo + 2)
        cs, ce = max(0, min(cs, ce)), max(cs, ce) + 1
        common = [c for c, p in enumerate(C) if cs <= p < ce]
        if overlapped:
            continue  # the relative image of a window on a self-overlapping location is finding F2 of C01
        try:
            res = tx.sequence_interval_to_cds(cs, ce, STRAND["+"])
        except LocationOverlapException:
            ctx.true("sequence_interval_to_cds_refused_overlapping", not common, [cs, ce])
            continue
        ctx.eq("sequence_interval_to_cds", sorted(rm.loc_positions(res)), common, extra=[cs, ce])
    # --- UTR partition
    utr5 = utr3 = None
    try:
        utr5 = tx.get_5p_interval()
    except Exception as e:  # any exception here is a violation: an empty UTR is not an error
        ctx.fail("utr5_raises", {"exc": repr(e)[:120], "i": i, "j": j, "n": n})
    try:
        utr3 = tx.get_3p_interval()
    except Exception as e:
        ctx.fail("utr3_raises", {"exc": repr(e)[:120], "i": i, "j": j, "n": n})
    if chunk:
        # documented: on a chunk-relative transcript the UTRs are chunk-relative - i.e. the part of each UTR on the chunk
        sh = lambda ps: [(p - chunk[0] if cst == "+" else chunk[1] - 1 - p) for p in ps if chunk[0] <= p < chunk[1]]  # noqa: E731
        U5, U3, CC = sh(T[:i]), sh(T[j:]), sh(C)
        if 0 < len(U5) < i or 0 < len(U3) < n - j:
            ctx.nt("chunk_cuts_utr")
    else:
        U5, U3, CC = T[:i], T[j:], None
    if utr5 is not None:
        ctx.eq("utr5_positions", rm.loc_positions(utr5) if len(utr5) else [], U5)
        ctx.eq("utr5_len", len(utr5), len(U5))
        if U5:
            ctx.eq("utr5_strand", rm.loc_strand(utr5), rm.compose(strand, cst))
    if utr3 is not None:
        ctx.eq("utr3_positions", rm.loc_positions(utr3) if len(utr3) else [], U3)
        ctx.eq("utr3_len", len(utr3), len(U3))
        if U3:
            ctx.eq("utr3_strand", rm.loc_strand(utr3), rm.compose(strand, cst))
    if utr5 is not None and utr3 is not None and not chunk:
        allp = rm.loc_positions(utr5) + rm.loc_positions(tx.cds_location) + rm.loc_positions(utr3)
        # with a skipped base the three parts cover the exons except that base
        if overlapped:
            ctx.eq("utr_cds_partition_in_order", allp, T[:i] + C + T[j:])
            ctx.eq("utr_cds_disjoint", len(set(allp)), len(allp) - (len(C) - len(cset)))
            ctx.eq("utr_cds_cover_exons", sorted(set(allp)), sorted(T))
        else:
            ctx.eq("utr_cds_partition_in_order", allp, [p for t, p in enumerate(T) if t < i or t >= j or p in cset])
            ctx.eq("utr_cds_disjoint", len(set(allp)), len(allp))
    if utr5 is not None and utr3 is not None and chunk and g:
        # on the chunk: the UTR pieces spell the corresponding stretches of the chunk sequence
        cg = g[chunk[0]:chunk[1]] if cst == "+" else rm.revcomp(g[chunk[0]:chunk[1]])
        if U5:
            ctx.eq("utr5_sequence_on_chunk", str(utr5.extract_sequence()), rm.seq_image(cg, U5, rm.compose(strand, cst)))
        if U3:
            ctx.eq("utr3_sequence_on_chunk", str(utr3.extract_sequence()), rm.seq_image(cg, U3, rm.compose(strand, cst)))
    # with sequence: the three parts spell the transcript
    if g and not chunk:
        mrna = str(tx.get_transcript_sequence())
        ctx.eq("transcript_sequence", mrna, rm.seq_image(g, T, strand))
        if utr5 is not None and utr3 is not None:
            parts = (str(utr5.extract_sequence()) if len(utr5) else "") + str(tx.cds_location.reset_parent(parent).extract_sequence()) + \
                    (str(utr3.extract_sequence()) if len(utr3) else "")
            if not gapped and not overlapped:
                ctx.eq("utr_cds_sequence_concat", parts, mrna)


def check_introns(spec, ctx):
    """introns = span minus exons, also for exon lists in which exons overlap or nest (alternative splice sites written as one
    non-coding model, nested annotation artefacts): the validation code documents that such exons count as one stretch"""
    ex, strand = spec["exons"], spec["strand"]
    ctx.nt("overlapping_exons" if rm.has_self_overlap(ex) else "disjoint_exons")
    try:
        tx = mktx({"exons": ex, "strand": strand, "exon_order": spec.get("exon_order")})
        if spec.get("exon_order") and spec["exon_order"] != sorted(spec["exon_order"]):
            ctx.label("exons_given_unsorted")
    except Exception as e:
        ctx.fail("transcript_with_overlapping_exons_refused", repr(e)[:120])
        return
    lo, hi = min(b[0] for b in ex), max(b[1] for b in ex)
    covered = rm.posset(ex)
    for name in ("chromosome_intron_location", "chunk_relative_intron_location"):
        intr = getattr(tx, name)
        got = sorted(rm.posset(rm.loc_blocks(intr))) if not intr.is_empty else []
        ctx.eq("introns_are_span_minus_exons:" + name, got, sorted(set(range(lo, hi)) - covered))
    sp_ = tx.chromosome_span
    ctx.eq("span", (sp_.start, sp_.end), (lo, hi))
    ctx.eq("start_end", (tx.start, tx.end), (lo, hi))
    gl = tx.chromosome_gaps_location
    ctx.eq("gaps_location", sorted(rm.posset(rm.loc_blocks(gl))) if not gl.is_empty else [], sorted(set(range(lo, hi)) - covered))


@st.composite
def strat_introns(draw, tier="quick"):
    ex = draw(S.layout(max_k=5, allow_empty=False, allow_adjacent=True, allow_overlap=True, allow_nested=True, max_len=9, max_gap=5))
    sp = {"exons": ex, "strand": draw(st.sampled_from(["+", "-"]))}
    if len(ex) > 1 and draw(st.booleans()):
        sp["exon_order"] = list(draw(st.permutations(list(range(len(ex))))))   # the lists handed to the constructor are not sorted
    return sp


@st.composite
def strat_tx(draw, tier="quick"):
    big = tier == "thorough"
    if draw(st.integers(0, 9)) == 0:
        # many short exons (real genes have dozens): 8..14 blocks
        sp = draw(S.transcript_spec(min_exons=8, max_exons=14, max_len=4, frameshift_prob=20, cds_gap_prob=6, cds_overlap_prob=12))
    else:
        sp = draw(S.transcript_spec(max_exons=5 if not big else 6, max_len=8 if not big else 12, frameshift_prob=20, cds_gap_prob=6, cds_overlap_prob=6))
    if len(sp["exons"]) > 1 and "cds" not in sp and draw(st.booleans()):
        # (coding transcripts are documented by their validation messages to take sorted exon lists; non-coding ones need not)
        sp["exon_order"] = list(draw(st.permutations(list(range(len(sp["exons"]))))))
    sp["tx_intervals"] = draw(st.lists(st.tuples(st.integers(0, 80), st.integers(0, 80)).map(list), min_size=1, max_size=3))
    sp["chr_intervals"] = draw(st.lists(st.tuples(st.integers(0, 100), st.integers(0, 100)).map(list), min_size=1, max_size=3))
    if draw(st.booleans()):
        hi = sp["exons"][-1][1]
        sp["genome"] = draw(S.dna(hi + 2, hi + 2))
        sp["untyped_parent"] = draw(st.integers(0, 4)) == 0
        if draw(st.integers(0, 2)) == 0:
            # seen through a sequence chunk that contains, cuts or misses the transcript
            a = draw(st.integers(0, hi + 1))
            sp["chunk"] = [a, draw(st.integers(a + 1, hi + 2))]
            sp["chunk_strand"] = draw(st.sampled_from(["+", "+", "-"]))
            sp["chunk_idiom"] = draw(st.sampled_from(["api", "api", "docstring"]))
    return sp


EX = [
    {"exons": [[2, 6], [9, 14]], "strand": "+", "cds": [[4, 6], [9, 14]], "frames": [0, 2], "offset": 0, "frameshift": False, "cds_i": 2, "cds_j": 9,
     "tx_intervals": [[0, 9]], "chr_intervals": [[0, 20]], "genome": "ACGTACGTACGTACGTACGT"},
    {"exons": [[2, 6], [9, 14]], "strand": "-", "cds": [[2, 6], [9, 12]], "frames": [0, 0], "offset": 0, "frameshift": False, "cds_i": 2, "cds_j": 9,
     "tx_intervals": [[1, 5]], "chr_intervals": [[3, 11]]},
    {"exons": [[2, 6], [9, 14]], "strand": "+", "cds": [[2, 6], [9, 12]], "frames": [0, 1], "offset": 0, "frameshift": False, "cds_i": 0, "cds_j": 7,
     "tx_intervals": [[1, 5]], "chr_intervals": [[3, 11]]},
    {"exons": [[3, 12]], "strand": "-", "cds": [[3, 12]], "frames": [0], "offset": 0, "frameshift": False, "cds_i": 0, "cds_j": 9,
     "tx_intervals": [[1, 5]], "chr_intervals": [[3, 11]]},
    # a -1 frameshift model (CDS blocks overlapping by one base) whose UTRs are exactly as long as the overlap: the CDS has as many
    # bases as the transcript without being the whole transcript (one base of UTR on the 5' side / on the 3' side, either strand)
    {"exons": [[0, 12]], "strand": "+", "cds": [[1, 6], [5, 12]], "frames": [0, 2], "offset": 0, "frameshift": False, "cds_overlapped": True, "cds_i": 1, "cds_j": 12,
     "tx_intervals": [[0, 3]], "chr_intervals": [[0, 12]], "genome": "AATGAAACCCGGGTTT"},
    {"exons": [[0, 12]], "strand": "-", "cds": [[0, 6], [5, 11]], "frames": [2, 0], "offset": 0, "frameshift": False, "cds_overlapped": True, "cds_i": 1, "cds_j": 12,
     "tx_intervals": [[0, 3]], "chr_intervals": [[0, 12]], "genome": "AATGAAACCCGGGTTT"},
    {"exons": [[0, 5], [8, 15]], "strand": "+", "cds": [[0, 5], [8, 12], [11, 14]], "frames": [0, 2, 0], "offset": 0, "frameshift": False, "cds_overlapped": True, "cds_i": 0, "cds_j": 11,
     "tx_intervals": [[0, 3]], "chr_intervals": [[0, 15]], "genome": "AATGAAACCCGGGTTTAA"},
]

PROP = Prop(
    pid="C06",
    legs=[
        Leg("introns", check_introns, strategy=strat_introns, n_quick=600, n_thorough=6000, must_hit=["overlapping_exons"],
            rule="non-coding transcripts whose exons may touch, overlap or nest (1..5 exons, both strands): introns (chromosome and chunk-relative accessor), gaps, span and start/end against span minus the union of the exons"),
        Leg("transcript", check_tx, strategy=strat_tx, examples=EX, n_quick=900, n_thorough=9000, shards_quick=4,
            must_hit=["cds_reaches_3p&multi_exon", "cds_reaches_5p&multi_exon", "cds_on_exon_boundary", "single_exon_full_cds", "minus", "noncoding", "cds_with_skipped_base", "cds_with_overlapping_blocks", "chunk_cuts_transcript", "chunk_cuts_utr", "exons_given_unsorted", "exons>=8"],
            rule="transcripts (1..5/6 exons, one in ten with 8..14 short exons, both strands, coding with the CDS a contiguous run [i,j) of the transcript biased to ends and exon boundaries, or non-coding), with/without sequence, on the whole chromosome or seen through a sequence chunk that contains/cuts/misses it; every transcript, CDS and chromosome position in span+-1, random intervals in each system, UTRs, introns"),
    ],
    rule="Oracle: PosModel lists T (transcript) and C=T[i:j] (CDS). Non-trivial: multi-exon and (CDS at an end or on an exon boundary or minus strand). "
         "Distinct = canonical JSON.",
    assumptions=["the CDS is generated as a contiguous run of the transcript (as a CDS must be)", "an empty UTR may be any zero-length location, but never an exception"],
)
