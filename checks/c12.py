"""C12 — GenBank export is faithful to an independent reader (Biopython) and to BioCantor's parsers."""
import io
import json
import warnings

from hypothesis import strategies as st

import harness.compat  # noqa: F401
from Bio import SeqIO
from Bio.Data import CodonTable
from harness import refmodel as rm
from harness import strategies as S
from harness.build import mkcollection, chrom_parent, chunk_parent, as_container
from harness.core import Leg, Prop
from inscripta.biocantor.io.genbank.constants import GenbankFlavor, GenBankParserType
from inscripta.biocantor.io.genbank.parser import parse_genbank
from inscripta.biocantor.io.genbank.writer import collection_to_genbank

_T1 = CodonTable.unambiguous_dna_by_id[1]
_T11 = CodonTable.unambiguous_dna_by_id[11]
NC_TYPES = {"ncRNA": "ncRNA", "tRNA": "tRNA", "rRNA": "rRNA", "misc_RNA": "misc_RNA", "tmRNA": "tmRNA", "lncRNA": "misc_RNA", "snoRNA": "misc_RNA"}


def std_aa(c):
    return "*" if c in _T1.stop_codons else _T1.forward_table[c]


def blocks_of(feature):
    return sorted((int(p.start), int(p.end)) for p in feature.location.parts)


def strand_of(feature):
    return {1: "+", -1: "-", 0: ".", None: "."}[feature.location.strand]


def gene_strand(g):
    strands = [t["strand"] for t in g["transcripts"]]
    return max(strands, key=strands.count)


def export(spec, flavor, translations, ctx=None):
    # a file may hold several records: further collections (spec["more"]) on sequences chr2, chr3 are written after the first
    # the first collection may live on a sequence chunk that contains all its members (e.g. the result of a range query): the
    # record then holds the chunk's sequence and chunk-relative coordinates
    ch_ = spec.get("chunk")
    coll = mkcollection(spec["obj"], chunk_parent(spec["genome"], ch_[0], ch_[1], strand=spec.get("chunk_strand", "+")) if ch_ else chrom_parent(spec["genome"]))
    colls = [coll] + [mkcollection(m_["obj"], chrom_parent(m_["genome"], name=m_.get("name", "chr%d" % (k_ + 2))), sequence_name=m_.get("name", "chr%d" % (k_ + 2))) for k_, m_ in enumerate(spec.get("more") or [])]
    buf = io.StringIO()
    # force_strand=False skips members whose strand differs from their gene's instead of forcing them: the genes generated here have
    # one strand, so nothing is skipped and the file is the same
    fs_ = {"force_strand": False} if spec.get("force_strand") is False else {}
    with warnings.catch_warnings():
        warnings.simplefilter("ignore")
        if spec.get("other_flavor_first"):
            # the very same collection objects were exported in the other flavour, with translations, just before
            collection_to_genbank(list(colls), io.StringIO(), genbank_type=GenbankFlavor["EUKARYOTIC" if flavor == "PROKARYOTIC" else "PROKARYOTIC"], update_translations=True)
        if spec.get("target") == "path":
            # the documented alternative to an open handle: a path
            import os
            import tempfile
            path = os.path.join(tempfile.gettempdir(), "verif_c12_%d.gbk" % os.getpid())
            try:
                collection_to_genbank(as_container(colls, spec.get("container", "list")), path, genbank_type=GenbankFlavor[flavor], update_translations=translations, **fs_)
                with open(path) as fh:
                    buf.write(fh.read())
            finally:
                if os.path.exists(path):
                    os.remove(path)
        else:
            collection_to_genbank(as_container(colls, spec.get("container", "list")), buf, genbank_type=GenbankFlavor[flavor], update_translations=translations, **fs_)
        if ctx is not None:
            buf2 = io.StringIO()
            collection_to_genbank(as_container(colls, spec.get("container", "list")), buf2, genbank_type=GenbankFlavor[flavor], update_translations=translations, **fs_)
            ctx.true("second_export_same_file[%s]" % flavor, buf2.getvalue() == buf.getvalue(), {"first": buf.getvalue()[:300], "second": buf2.getvalue()[:300]})
    return coll, buf.getvalue()


def expected_features(o, flavor):
    """[(type, blocks, strand, required qualifiers dict, kind, source spec)] in file order"""
    members = [("gene", g, min(t["exons"][0][0] for t in g["transcripts"])) for g in o.get("genes", [])] + \
              [("fc", c, min(f["blocks"][0][0] for f in c["features"])) for c in o.get("feature_collections", [])]
    members.sort(key=lambda m: m[2])
    out = []
    for kind, m, _ in members:
        if kind == "gene":
            txs = m["transcripts"]
            lo, hi = min(t["exons"][0][0] for t in txs), max(t["exons"][-1][1] for t in txs)
            strand = gene_strand(m)
            symbol = m.get("gene_symbol") or m.get("gene_id")
            lt = m.get("locus_tag") or symbol
            q = {"gene": [symbol], "locus_tag": [lt]}
            if m.get("gene_id"):
                q["gene_id"] = [m["gene_id"]]
            out.append(("gene", [(lo, hi)], strand, q, "gene", m))
            for t in txs:
                tq = {"gene": [symbol], "locus_tag": [lt]}
                if t.get("transcript_id"):
                    tq["transcript_id"] = [t["transcript_id"]]
                if t.get("transcript_symbol"):
                    tq["transcript_name"] = [t["transcript_symbol"]]
                coding = "cds" in t
                if coding:
                    cq = dict(tq)
                    if t.get("protein_id"):
                        cq["protein_id"] = [t["protein_id"]]
                    if flavor == "EUKARYOTIC":
                        out.append(("mRNA", sorted(map(tuple, t["exons"])), strand, tq, "tx", t))
                    out.append(("CDS", sorted(map(tuple, t["cds"])), strand, cq, "cds", t))
                else:
                    ftype = NC_TYPES.get(t.get("transcript_type"), "misc_RNA")
                    out.append((ftype, sorted(map(tuple, t["exons"])), strand, tq, "tx", t))
        else:
            feats = m["features"]
            lo, hi = min(f["blocks"][0][0] for f in feats), max(f["blocks"][-1][1] for f in feats)
            strands = [f["strand"] for f in feats]
            strand = max(strands, key=strands.count)
            symbol = m.get("feature_collection_name") or m.get("feature_collection_id")
            q = {"misc_feature": [symbol]}
            if m.get("locus_tag") or symbol:
                q["locus_tag"] = [m.get("locus_tag") or symbol]
            out.append(("misc_feature", [(lo, hi)], strand, q, "fc", m))
            for f in feats:
                fq = {"gene": [symbol]}
                if f.get("feature_id"):
                    fq["feature_id"] = [f["feature_id"]]
                out.append(("feat_interval", sorted(map(tuple, f["blocks"])), strand, fq, "feat", f))
    return out


def first_frame(t):
    return t["frames"][0] if t["strand"] == "+" else t["frames"][-1]


def mirror_obj(o, cs, ce):
    """the same annotation as it reads on the reverse complement of the window [cs, ce): block [s, e) -> [ce - e, ce - s), strands
    flipped, per-block lists (frames) reversed with the blocks"""
    def mb(bl):
        return sorted([ce - b[1], ce - b[0]] for b in bl)
    fl = {"+": "-", "-": "+", ".": "."}
    m = json.loads(json.dumps(o))
    for gn in m.get("genes", []):
        for t in gn["transcripts"]:
            t["exons"] = mb(t["exons"])
            t["strand"] = fl[t["strand"]]
            if "cds" in t:
                t["cds"] = mb(t["cds"])
                t["frames"] = list(reversed(t["frames"]))
    for c in m.get("feature_collections", []):
        for f in c["features"]:
            f["blocks"] = mb(f["blocks"])
            f["strand"] = fl[f["strand"]]
    return m


def check_minus_chunk(spec, ctx):
    """a collection on a chunk that is the REVERSE COMPLEMENT of its window: the record holds the chunk's sequence and chunk
    coordinates, so it is the record of the mirrored annotation on that sequence (which the clauses of check_genbank decide)"""
    cs, ce = spec["chunk"]
    g = spec["genome"]
    ctx.nt("collection_on_minus_chunk")
    mirrored = {"obj": mirror_obj(spec["obj"], cs, ce), "genome": rm.revcomp(g[cs:ce]), "container": "list"}
    for flavor in ("PROKARYOTIC", "EUKARYOTIC"):
        for translations in (False, True):
            try:
                _, text_c = export(dict(spec, more=None), flavor, translations)
                _, text_m = export(mirrored, flavor, translations)
            except Exception as e:
                ctx.fail("minus_chunk_export_raises[%s]" % flavor, repr(e)[:160])
                continue
            rc = list(SeqIO.parse(io.StringIO(text_c), "genbank"))
            rmr = list(SeqIO.parse(io.StringIO(text_m), "genbank"))
            if not ctx.eq("minus_chunk:one_record", (len(rc), len(rmr)), (1, 1)):
                continue
            ctx.eq("minus_chunk:sequence_is_the_chunk_sequence", str(rc[0].seq).upper(), rm.revcomp(g[cs:ce]).upper())

            def table(rec):
                return sorted((f.type, blocks_of(f), strand_of(f), sorted((k, tuple(v)) for k, v in f.qualifiers.items())) for f in rec.features)
            ctx.eq("minus_chunk:features_are_the_mirrored_annotation[%s,tr=%d]" % (flavor, translations), table(rc[0]), table(rmr[0]))


def check_genbank(spec, ctx):
    if spec.get("chunk") and spec.get("chunk_strand") == "-":
        return check_minus_chunk(spec, ctx)
    parts = [(spec["obj"], spec["genome"])] + [(m_["obj"], m_["genome"]) for m_ in (spec.get("more") or [])]
    if len(parts) > 1:
        ctx.nt("several_records")
        if any(not o_.get("genes") and not o_.get("feature_collections") for o_, _ in parts):
            ctx.label("record_without_features")
    if spec.get("chunk"):
        ctx.label("collection_on_chunk")
        if spec["chunk"][0] > 0:
            ctx.nt("collection_on_chunk_with_offset")
    o, g = spec["obj"], spec["genome"]
    genes = [gn for o_, _ in parts for gn in o_.get("genes", [])]
    if any(t["strand"] == "-" and len(t["exons"]) > 1 and "cds" in t for gn in genes for t in gn["transcripts"]):
        ctx.nt("minus&multi_exon")
    if any(t.get("offset") for gn in genes for t in gn["transcripts"] if "cds" in t):
        ctx.nt("offset!=0")
    if any("cds" not in t for gn in genes for t in gn["transcripts"]):
        ctx.label("noncoding")
    if any(t["exons"][i_][1] == t["exons"][i_ + 1][0] for gn in genes for t in gn["transcripts"] for i_ in range(len(t["exons"]) - 1)):
        ctx.label("abutting_exons")
    spans = sorted((min(t["exons"][0][0] for t in gn["transcripts"]), max(t["exons"][-1][1] for t in gn["transcripts"])) for gn in genes)
    if any(spans[i][1] == spans[i + 1][0] for i in range(len(spans) - 1)):
        ctx.nt("two_genes_touching")
    if len(genes) >= 2:
        ctx.nt()
    for flavor in ("PROKARYOTIC", "EUKARYOTIC"):
        for translations in (False, True):
            coll, text = export(spec, flavor, translations, ctx=ctx)
            # (a) independent reader
            recs = list(SeqIO.parse(io.StringIO(text), "genbank"))
            if not ctx.eq("one_record_per_sequence", len(recs), len(parts)):
                continue
            all_feats, ok_ = [], True
            for k_, ((o_, g_), rec) in enumerate(zip(parts, recs)):
                sh_ = spec["chunk"][0] if (k_ == 0 and spec.get("chunk")) else 0
                if k_ == 0 and spec.get("chunk"):
                    g_ = g_[spec["chunk"][0]:spec["chunk"][1]]
                ctx.eq("sequence", str(rec.seq).upper(), g_.upper())
                ctx.eq("record_name", rec.name, "chr1" if k_ == 0 else (spec["more"][k_ - 1].get("name", "chr%d" % (k_ + 1))))
                exp = [(t_, [(a_ - sh_, b_ - sh_) for a_, b_ in bl_], *rest_) for t_, bl_, *rest_ in expected_features(o_, flavor)]
                got = [(f.type, blocks_of(f), strand_of(f)) for f in rec.features]
                if not ctx.eq("features[%s]" % flavor, got, [(t, b, s) for t, b, s, *_ in exp]):
                    ok_ = False
                    continue
                all_feats.extend((f, e_, parts[k_][1]) for f, e_ in zip(rec.features, exp))
            if not ok_:
                continue
            for f, (etype, eb, es, eq, kind, src), g in all_feats:
                for k, v in eq.items():
                    ctx.eq("qualifier[%s]:%s:%s" % (flavor, etype, k), f.qualifiers.get(k), v)
                # ... and no identifier the source member does not have (e.g. one leaking over from a sibling isoform)
                if kind in ("tx", "cds"):
                    for k in ("transcript_id", "transcript_name") + (("protein_id",) if kind == "cds" else ()):
                        if k not in eq and k not in (src.get("qualifiers") or {}):
                            ctx.eq("absent_identifier_not_invented[%s]:%s:%s" % (flavor, etype, k), f.qualifiers.get(k), None)
                if etype != "CDS":
                    ctx.true("no_protein_id_outside_cds", "protein_id" not in f.qualifiers, etype)
                    ctx.true("no_translation_outside_cds", "translation" not in f.qualifiers, etype)
                else:
                    t = src
                    model, deg = rm.frame_walk(t["cds"], t["strand"], t["frames"])
                    ctx.eq("codon_start[%s]" % flavor, f.qualifiers.get("codon_start", [None])[0] and int(f.qualifiers["codon_start"][0]), first_frame(t) + 1)
                    if translations and model and not deg:
                        codons = [rm.seq_image(g, c, t["strand"]).upper() for c in model]
                        aas = [std_aa(c) for c in codons]
                        starts = set(_T11.start_codons) if flavor == "PROKARYOTIC" else {"ATG"}
                        if codons[0] in starts:
                            aas[0] = "M"
                        ctx.label("translation_checked")
                        ctx.eq("translation[%s]" % flavor, f.qualifiers.get("translation", [None])[0], "".join(aas))
                    if not translations and "translation" not in (t.get("qualifiers") or {}):
                        ctx.true("no_translation_unless_requested", "translation" not in f.qualifiers)
                    if "translation" in (t.get("qualifiers") or {}):
                        ctx.label("stale_translation_qualifier")
            if translations:
                continue
            if any(m_.get("name") == "chr1" for m_ in (spec.get("more") or [])):
                # two records named alike (a reference and an edited copy in one file): writer clauses only
                ctx.label("records_with_the_same_name")
                continue
            if any(len(gn["transcripts"]) > 1 for gn in genes):
                # (b)/(c) are claimed for one gene model per gene (isoforms sharing a start cannot be paired by feature order)
                ctx.label("multi_isoform_gene")
                continue
            # (b) BioCantor's parsers, (c) mode agreement
            parsed = {}
            for mode in ("SORTED", "LOCUS_TAG", "HYBRID"):
                with warnings.catch_warnings():
                    warnings.simplefilter("ignore")
                    pr = list(parse_genbank(io.StringIO(text), gbk_type=GenBankParserType[mode]))
                if not ctx.eq("parsed_records[%s]" % mode, len(pr), len(parts)):
                    continue
                pcs = [r_.to_annotation_collection() for r_ in pr]
                parsed[mode] = pcs
                for k2_, (pc_, (o_, g_)) in enumerate(zip(pcs, parts)):
                    if k2_ == 0 and spec.get("chunk"):
                        g_ = g_[spec["chunk"][0]:spec["chunk"][1]]
                    ctx.eq("parsed_sequence[%s]" % mode, str(pc_.sequence).upper(), g_.upper())
                    ctx.eq("parsed_genes_on_their_sequence[%s]" % mode, sorted(gn.locus_tag for gn in pc_.genes),
                           sorted((gn.get("locus_tag") or gn.get("gene_symbol") or gn.get("gene_id")) for gn in o_.get("genes", [])))
                got_genes = {gn.locus_tag: gn for pc_ in pcs for gn in pc_.genes}
                src_genes = {(gn.get("locus_tag") or gn.get("gene_symbol") or gn.get("gene_id")): gn for gn in genes}
                if not ctx.eq("parsed_locus_tags[%s,%s]" % (flavor, mode), sorted(got_genes), sorted(src_genes)):
                    continue
                sh0 = spec["chunk"][0] if spec.get("chunk") else 0
                first_part_genes = {id(gn) for gn in parts[0][0].get("genes", [])}
                for lt, sg in src_genes.items():
                    pg = got_genes[lt]
                    shg = sh0 if id(sg) in first_part_genes else 0
                    strand = gene_strand(sg)
                    ctx.eq("parsed_gene_symbol", pg.gene_symbol, sg.get("gene_symbol") or sg.get("gene_id"))
                    ctx.eq("parsed_gene_id", pg.gene_id, sg.get("gene_id"))
                    src_tx = {t["transcript_id"]: t for t in sg["transcripts"]}
                    got_tx = {t.transcript_id: t for t in pg.transcripts}
                    if not ctx.eq("parsed_transcript_ids[%s,%s]" % (flavor, mode), sorted(got_tx), sorted(src_tx)):
                        continue
                    for tid, stx in src_tx.items():
                        pt = got_tx[tid]
                        coding = "cds" in stx
                        ctx.eq("parsed_strand", pt.strand.to_symbol(), strand)
                        struct = stx["cds"] if (coding and flavor == "PROKARYOTIC") else stx["exons"]
                        ctx.eq("parsed_structure[%s]" % flavor, [(b.start, b.end) for b in pt.chromosome_location.blocks], [(b[0] - shg, b[1] - shg) for b in struct])
                        ctx.eq("parsed_is_coding", pt.is_coding, coding)
                        if coding and pt.is_coding:
                            ctx.eq("parsed_cds_blocks", list(zip(pt.cds._genomic_starts, pt.cds._genomic_ends)), [(b[0] - shg, b[1] - shg) for b in stx["cds"]])
                            got_first = pt.cds.frames[0].value if strand == "+" else pt.cds.frames[-1].value
                            ctx.eq("parsed_start_frame[%s]" % flavor, got_first, first_frame(stx))
                            first_len = (stx["cds"][0][1] - stx["cds"][0][0]) if strand == "+" else (stx["cds"][-1][1] - stx["cds"][-1][0])
                            if first_len > first_frame(stx):  # otherwise: degenerate corner of frame construction (C05)
                                ctx.eq("parsed_frames[%s]" % flavor, [f.value for f in pt.cds.frames], stx["frames"])
                            ctx.eq("parsed_protein_id", pt.protein_id, stx.get("protein_id"))
                        if stx.get("transcript_symbol"):
                            ctx.true("transcript_name_kept", stx["transcript_symbol"] in (pt.qualifiers or {}).get("transcript_name", set()), pt.qualifiers)
            if len(parsed) == 3:
                def canon_d(cs_):
                    return [json.loads(json.dumps(c.to_dict(), sort_keys=True, default=str)) for c in cs_]
                d = {m: canon_d(c) for m, c in parsed.items()}
                ctx.eq("modes_agree[sorted,hybrid]", d["SORTED"], d["HYBRID"])
                ctx.eq("modes_agree[locus_tag,hybrid]", d["LOCUS_TAG"], d["HYBRID"])


@st.composite
def strat_genbank(draw, tier="quick"):
    sp = draw(_one_record(""))
    sp["container"] = draw(st.sampled_from(["list", "list", "tuple", "generator", "iterator"]))
    sp["target"] = draw(st.sampled_from(["handle", "handle", "path"]))
    sp["other_flavor_first"] = draw(st.integers(0, 2)) == 0
    sp["force_strand"] = draw(st.sampled_from([True, True, False]))
    if draw(st.integers(0, 3)) == 0:
        # the collection sits on a sequence chunk that contains every member
        members_lo = min([t["exons"][0][0] for gn in sp["obj"]["genes"] for t in gn["transcripts"]] + [f["blocks"][0][0] for c in sp["obj"]["feature_collections"] for f in c["features"]])
        members_hi = max([t["exons"][-1][1] for gn in sp["obj"]["genes"] for t in gn["transcripts"]] + [f["blocks"][-1][1] for c in sp["obj"]["feature_collections"] for f in c["features"]])
        sp["chunk"] = [draw(st.integers(0, members_lo)), draw(st.integers(members_hi, len(sp["genome"])))]
        if draw(st.integers(0, 2)) == 0:
            sp["chunk_strand"] = "-"
            return sp
    r_ = draw(st.integers(0, 7))
    if r_ <= 1:
        # (a later record may hold no gene at all - a sequence nothing is annotated on yet)
        sp["more"] = [draw(_one_record("s%d" % k, max_genes=2, min_genes=draw(st.sampled_from([1, 1, 0])))) for k in range(draw(st.integers(1, 2)))]
    elif r_ == 2 and not sp.get("chunk") and len(sp["genome"]) > 1:
        # the same annotation on a second molecule of the same name and length but other bases (an edited copy of chr1)
        g2 = sp["genome"][1:] + sp["genome"][:1]
        sp["more"] = [{"obj": json.loads(json.dumps(sp["obj"])), "genome": g2, "name": "chr1"}]
    return sp


@st.composite
def _one_record(draw, tag, max_genes=4, isoforms=True, min_genes=1):
    ng = draw(st.integers(min_genes, max_genes))
    genes = []
    cursor = draw(st.integers(0, 4))
    for i in range(ng):
        strand = draw(st.sampled_from(["+", "-"]))
        coding = draw(st.sampled_from([True, True, False]))
        # mostly one transcript per gene (the re-parse clauses need that, see assumptions); isoform sets for the writer clauses
        ntx = draw(st.sampled_from([1, 1, 1, 2, 3])) if isoforms else 1
        txs = []
        for j in range(ntx):
            coding_j = coding if ntx == 1 else draw(st.sampled_from([coding, coding, not coding]))
            # non-coding transcripts may have abutting exons (a 0-bp intron is kept by the writer and the parsers; abutting CDS parts
            # are read back as one block by the parsers, so coding transcripts keep real introns here)
            t = draw(S.transcript_spec(max_exons=3, max_len=9, strand=strand, coding=coding_j, zero_gap_cds=False, frameshift_prob=0, cds_overlap_prob=6, start_min=cursor, start_max=2,
                                         adjacent_exons=(not coding_j) and draw(st.integers(0, 2)) == 0))
            coding_t = "cds" in t
            t["transcript_id"] = "%sg%dt%d" % (tag, i, j)
            t["transcript_symbol"] = draw(st.one_of(st.none(), st.just("%ssym%d_%d" % (tag, i, j))))
            if coding_t:
                t["transcript_type"] = "protein_coding"
                t["protein_id"] = draw(st.one_of(st.none(), st.just("%sprot%d_%d" % (tag, i, j))))
                if draw(st.integers(0, 3)) == 0:
                    # a /translation carried over from an earlier parse of another sequence version
                    t["qualifiers"] = dict(t.get("qualifiers") or {}, translation=["MSTALEPEPTIDE"])
                    t["_keep_q"] = True
            else:
                t["transcript_type"] = draw(st.sampled_from(["ncRNA", "tRNA", "rRNA", "misc_RNA", "tmRNA", "lncRNA"]))
            t["is_primary_tx"] = None
            if not t.pop("_keep_q", False):
                t["qualifiers"] = draw(S.simple_qualifiers(1))
            txs.append(t)
        seen_ = set()
        uniq = []
        for t in txs:
            key_ = json.dumps([t["exons"], t.get("cds")])
            if key_ not in seen_:
                seen_.add(key_)
                uniq.append(t)
        txs = uniq
        coding = any("cds" in t for t in txs)
        hi = max(t["exons"][-1][1] for t in txs)
        gid_ = draw(st.one_of(st.none(), st.just("%sgid%d" % (tag, i))))
        # a gene may be known by its id only (the writer then falls back to the id for /gene and the locus tag)
        genes.append({"transcripts": txs, "gene_id": gid_, "gene_symbol": None if (gid_ and draw(st.integers(0, 4)) == 0) else "GENE%s%d" % (tag, i),
                      "gene_type": "protein_coding" if coding else txs[0]["transcript_type"], "locus_tag": draw(st.one_of(st.none(), st.just("LT%s_%03d" % (tag, i)))),
                      "qualifiers": draw(S.simple_qualifiers(1))})
        cursor = hi + draw(st.sampled_from([0, 0, 1, 3, 7]))
    fcs = []
    if draw(st.integers(0, 2)) == 0:
        fc = draw(S.feature_collection_spec(max_feat=2, max_blocks=2, max_len=6, region=[cursor + 1, 0]))
        s0 = fc["features"][0]["strand"]
        for f in fc["features"]:
            f["strand"] = s0
        fc["feature_collection_name"] = "FC0" + tag
        fc["locus_tag"] = "LT_fc" + tag
        fcs.append(fc)
        cursor = max(f["blocks"][-1][1] for f in fc["features"])
    n = cursor + draw(st.integers(1, 5))
    return {"obj": {"genes": genes, "feature_collections": fcs, "name": None}, "genome": draw(S.dna(n, n))}


def pred_f20(spec, clause, detail):
    return True


PROP = Prop(
    pid="C12",
    legs=[
        Leg("genbank", check_genbank, strategy=strat_genbank, n_quick=150, n_thorough=1500, shards_quick=8,
            must_hit=["minus&multi_exon", "offset!=0", "noncoding", "two_genes_touching", "translation_checked", "stale_translation_qualifier", "multi_isoform_gene", "several_records", "collection_on_chunk_with_offset", "abutting_exons", "collection_on_minus_chunk"],
            rule="1..4 single-strand genes at increasing positions (adjacent genes possible), 1..2 isoforms, coding (offset 0/1/2, one reading frame) or non-coding (ncRNA/tRNA/rRNA/misc_RNA/tmRNA/lncRNA), unique symbols and locus tags, optional feature collection; x flavour {prokaryotic, eukaryotic} x update_translations x parser mode {sorted, locus-tag, hybrid}"),
    ],
    rule="Oracle: Bio.SeqIO (independent reader) for record types/blocks/strand/qualifiers, Bio codon table for /translation; source spec for the "
         "re-parsed models; pairwise equality of the three parser modes. Non-trivial: multi-exon minus coding gene, offset != 0, or >=2 genes.",
    assumptions=[
        "runs through the Biopython compat shim (SeqFeature(strand=), .strand, nofuzzy_*): what Biopython <=1.79 would write for the same SeqFeatures is assumed identical",
        "CDS have one uninterrupted reading frame and no 0-bp-gap blocks (GenBank cannot carry either, documented by the parser)",
        "genes are position-sorted with unique locus tags (precondition of the mode-agreement clause)",
        "re-parse and mode-agreement clauses: one transcript per gene (the sorted parser re-sorts features by (start, type), so isoforms sharing a start cannot be told apart by order); the writer clauses (independent reader) also cover genes with 2-3 isoforms, coding and non-coding mixed",
    ],
    predicates={"f20": pred_f20},
)
