"""C16 — genomic bin assignment is the UCSC scheme and never hides a contained feature."""
from hypothesis import strategies as st

import harness.compat  # noqa: F401
from harness.build import mkcollection
from harness.core import Leg, Prop
from inscripta.biocantor.exc import InvalidQueryError
from inscripta.biocantor.parent import Parent
from inscripta.biocantor.util.bins import bins

# re-typed from the module header / kent binRange.c (extended offsets, first shift 17, next shift 3, 5 levels <= 2^29)
OFFS = [4681, 585, 73, 9, 1]
FIRST = 17
NEXT = 3
MAXC = 2 ** 29


def ref_bin(s0, e0):
    """smallest bin whose geometric extent [i*2^k,(i+1)*2^k) contains the half-open 0-based interval [s0,e0)"""
    if s0 < 0 or e0 > MAXC or s0 >= e0:
        return 1
    for lvl, off in enumerate(OFFS):
        sh = FIRST + NEXT * lvl
        if s0 >> sh == (e0 - 1) >> sh:
            return off + (s0 >> sh)
    return 1


def ref_bin_extent(b):
    for lvl, off in enumerate(OFFS):
        n = MAXC >> (FIRST + NEXT * lvl)
        if off <= b < off + n:
            sh = FIRST + NEXT * lvl
            return ((b - off) << sh, (b - off + 1) << sh)
    return None


def to0(s, e, fmt):
    """library coordinates -> 0-based half-open"""
    return (s - 1, e) if fmt == "gff" else (s, e)


def boundaries(level, count):
    size = 1 << (FIRST + NEXT * level)
    n = MAXC // size
    if n <= count:
        return [m * size for m in range(0, n + 1)]
    step = n / (count - 1)
    ms = sorted(set([0, 1, 2, n - 1, n] + [int(i * step) for i in range(count)]))
    return [m * size for m in ms]


def enum_bands(tier, shard, nshards):
    cnt = 10 if tier == "quick" else 28
    i = 0
    for level in range(5):
        bs = boundaries(level, cnt)
        # neighbours at the finest level too, so coarse boundaries are crossed by short intervals
        for x, b1 in enumerate(bs):
            for b2 in bs[x:]:
                i += 1
                if i % nshards != shard:
                    continue
                for ds in range(-3, 4):
                    for de in range(-3, 4):
                        s, e = b1 + ds, b2 + de
                        if s >= e:
                            continue
                        for fmt in ("bed", "gff"):
                            if fmt == "gff" and s < 1:
                                continue  # GFF coordinates are 1-based
                            yield {"s": s, "e": e, "fmt": fmt}


def near_boundary(v):
    return any(((v + d) & ((1 << FIRST) - 1)) == 0 for d in range(-3, 4))


def check_assign(spec, ctx):
    s, e, fmt = spec["s"], spec["e"], spec["fmt"]
    s0, e0 = to0(s, e, fmt)
    if near_boundary(s0) or near_boundary(e0):
        ctx.nt()
    got = bins(s, e, fmt=fmt, one=True)
    ctx.true("bin_is_int", isinstance(got, int), repr(got))
    if s0 < 0 or e0 > MAXC or s < 0:
        ctx.label("out_of_range")
        ctx.eq("out_of_range_bin", got, 1)
        # the all-bins form of a range that starts in range but reaches past 2^29 still covers its in-range part
        allb = bins(s, e, fmt=fmt, one=False)
        ctx.true("all_bins_contains_bin_1", 1 in allb, sorted(allb)[:5])
        if 0 <= s0 < MAXC and s >= 0:
            ctx.label("out_of_range_on_the_right_only")
            need = set()
            for lvl, off in enumerate(OFFS):
                sh = FIRST + NEXT * lvl
                need.update(range(off + (s0 >> sh), off + ((MAXC - 1) >> sh) + 1))
            ctx.true("all_bins_superset_of_overlapping(in-range part)", need <= set(allb), {"missing": sorted(need - set(allb))[:5]})
        return
    exp = ref_bin(s0, e0)
    # containment (safety half of the property): the assigned bin's extent contains the interval
    ext = ref_bin_extent(got)
    if ctx.true("assigned_bin_is_standard", ext is not None, got):
        ctx.true("assigned_bin_contains_interval", ext[0] <= s0 and e0 <= ext[1], {"bin": got, "extent": ext, "iv": [s0, e0]})
    if got != exp:
        ctx.fail("smallest_bin", {"got": got, "expected": exp, "iv0": [s0, e0], "fmt": fmt})
    if e0 % (1 << FIRST) == 0:
        ctx.label("end_on_boundary")
    # all-bins form: contains the assigned bin and every bin whose extent overlaps the interval
    allb = bins(s, e, fmt=fmt, one=False)
    ctx.true("all_bins_contains_bin_1", 1 in allb, sorted(allb)[:5])
    ctx.true("all_bins_contains_assigned", got in allb, {"assigned": got})
    ctx.true("all_bins_contains_smallest", exp in allb, {"smallest": exp})
    need = set()
    for lvl, off in enumerate(OFFS):
        sh = FIRST + NEXT * lvl
        need.update(range(off + (s0 >> sh), off + ((e0 - 1) >> sh) + 1))
    ctx.true("all_bins_superset_of_overlapping", need <= set(allb), {"missing": sorted(need - set(allb))[:5]})


def check_never_hides(spec, ctx):
    """for a query range Q and an interval I that overlaps Q (or is contained in it): bins(I, one) in bins(Q, all)"""
    fmt = spec["fmt"]
    qs, qe, s, e = spec["qs"], spec["qe"], spec["s"], spec["e"]
    q0, i0 = to0(qs, qe, fmt), to0(s, e, fmt)
    if not (0 <= q0[0] < q0[1] and 0 <= i0[0] < i0[1]):
        return
    overlap = max(q0[0], i0[0]) < min(q0[1], i0[1])
    if not overlap:
        return
    ctx.nt("contained" if (q0[0] <= i0[0] and i0[1] <= q0[1]) else "overlapping")
    if qe >= MAXC or e >= MAXC:
        ctx.label("out_of_range")
    b = bins(s, e, fmt=fmt, one=True)
    qb = bins(qs, qe, fmt=fmt, one=False)
    ctx.true("never_hides", b in qb, {"bin": b, "query": [qs, qe], "iv": [s, e], "fmt": fmt})
    # the returned set belongs to the caller (intersecting it with another bin set is the obvious use): narrowing it in place
    # must not narrow what the next call for the same range answers
    before = set(qb)
    try:
        qb &= {b + 1}
        qb.discard(b)
    except AttributeError:
        pass
    again = bins(qs, qe, fmt=fmt, one=False)
    ctx.eq("all_bins_answer_unchanged_after_caller_edited_the_earlier_set", sorted(again), sorted(before), extra={"query": [qs, qe], "fmt": fmt})


@st.composite
def coord(draw):
    lvl = draw(st.integers(0, 4))
    size = 1 << (FIRST + NEXT * lvl)
    m = draw(st.integers(0, MAXC // size))
    return max(0, m * size + draw(st.sampled_from([-3, -2, -1, 0, 0, 1, 2, 3, 5, 1000, -1000, size // 2])))


@st.composite
def strat_random_assign(draw, tier="quick"):
    mode = draw(st.integers(0, 3))
    if mode == 0:
        a, b = draw(st.integers(-5, 2 ** 30)), draw(st.integers(-5, 2 ** 30))
    else:
        a, b = draw(coord()), draw(coord())
    s, e = min(a, b), max(a, b)
    if s == e:
        e += 1
    fmt = draw(st.sampled_from(["bed", "gff"]))
    if fmt == "gff" and s < 1:
        s, e = 1, max(e, 1)
    return {"s": s, "e": e, "fmt": fmt}


@st.composite
def strat_never_hides(draw, tier="quick"):
    a, b = draw(coord()), draw(coord())
    s, e = min(a, b), max(a, b)
    if draw(st.booleans()):
        e = s + draw(st.sampled_from([1, 2, 100, 2 ** 17 - 1, 2 ** 17, 2 ** 17 + 1, 2 ** 20]))
    if s == e:
        e += 1
    mode = draw(st.integers(0, 3))
    if mode == 0:  # query contains the interval
        qs = max(0, s - draw(st.sampled_from([0, 0, 1, 3, 2 ** 17, 2 ** 20, 12345])))
        qe = e + draw(st.sampled_from([0, 0, 1, 3, 2 ** 17, 2 ** 20, 12345]))
    elif mode == 1:  # query cuts the left end
        qs = max(0, s - draw(st.sampled_from([1, 3, 2 ** 17, 999])))
        qe = s + draw(st.integers(1, max(1, e - s)))
    elif mode == 2:  # query cuts the right end
        qs = e - draw(st.integers(1, max(1, e - s)))
        qe = e + draw(st.sampled_from([1, 3, 2 ** 17, 999]))
    else:  # query inside the interval
        qs = s + draw(st.integers(0, max(0, e - s - 1)))
        qe = qs + draw(st.integers(1, max(1, e - qs)))
    fmt = draw(st.sampled_from(["bed", "gff"]))
    if fmt == "gff":
        s, qs = s + 1, qs + 1
        if s > e:
            e = s
        if qs > qe:
            qe = qs
    return {"qs": qs, "qe": qe, "s": s, "e": e, "fmt": fmt}


# ------------------------------------------------------------------ integrated: the pre-filter inside range queries
# "bin-based pre-filtering can never change the answer of a range query": a collection whose children are 1..6 bp long and sit
# in the band +-3 around a bin boundary b, asked every range with both ends in b-4..b+4 (plus far ends), answers = brute force.

def band_collection(b, anchors=True):
    """children of every shape in the band around b; two far anchors widen the collection's own bounds"""
    fcs, genes, vcs = [], [], []
    n = 0
    for a in range(-3, 4):
        for c in range(a + 1, 4):
            if b + a < 0:
                continue
            n += 1
            fcs.append({"features": [{"blocks": [[b + a, b + c]], "strand": "+" if n % 2 else "-", "feature_id": "f%d" % n}],
                        "feature_collection_id": "fc%d" % n, "qualifiers": {}})
    for i, (a, c) in enumerate([(-1, 0), (0, 1), (-1, 1), (0, 2), (-2, 0), (1, 2)]):
        if b + a < 0:
            continue
        genes.append({"transcripts": [{"exons": [[b + a, b + c]], "strand": "+", "transcript_id": "t%d" % i, "transcript_type": "ncRNA"}],
                      "gene_id": "g%d" % i, "gene_type": "ncRNA", "qualifiers": {}})
    if b >= 1:
        # a gene whose two isoforms lie on either side of the boundary, and a coding one-codon gene ending at b
        genes.append({"transcripts": [{"exons": [[b - 1, b]], "strand": "+", "transcript_id": "tL", "transcript_type": "ncRNA"},
                                      {"exons": [[b, b + 1]], "strand": "+", "transcript_id": "tR", "transcript_type": "ncRNA"}],
                      "gene_id": "gLR", "gene_type": "ncRNA", "qualifiers": {}})
    for i, a in enumerate((-1, 0, 1)):
        if b + a < 0:
            continue
        vcs.append({"variants": [{"start": b + a, "end": b + a + 1, "sequence": "G", "variant_type": "SNV", "variant_id": "v%d" % i}],
                    "variant_collection_id": "vc%d" % i, "qualifiers": {}})
    if not anchors:
        return {"genes": genes, "feature_collections": fcs, "variant_collections": vcs, "name": "band", "qualifiers": {}}
    # members whose children lie in different bins, more than one bin apart: a range query between the children overlaps
    # the member's span without touching any bin a child occupies
    w = 2 ** 17 + 10
    if b - w - 5 >= 0:
        genes.append({"transcripts": [{"exons": [[b - w - 5, b - w]], "strand": "+", "transcript_id": "tW1", "transcript_type": "ncRNA"},
                                      {"exons": [[b + w, b + w + 5]], "strand": "-", "transcript_id": "tW2", "transcript_type": "ncRNA"}],
                      "gene_id": "gWide", "gene_type": "ncRNA", "qualifiers": {}})
        fcs.append({"features": [{"blocks": [[b - w - 9, b - w - 7]], "strand": "+", "feature_id": "fW1"}, {"blocks": [[b + w + 7, b + w + 9]], "strand": "+", "feature_id": "fW2"}],
                    "feature_collection_id": "fcWide", "qualifiers": {}})
    lo = max(0, b - 2 ** 18)
    hi = b + 2 ** 18
    if lo + 2 <= b - 4:
        fcs.append({"features": [{"blocks": [[lo, lo + 2]], "strand": "+", "feature_id": "flo"}], "feature_collection_id": "fclo", "qualifiers": {}})
    fcs.append({"features": [{"blocks": [[hi, hi + 2]], "strand": "+", "feature_id": "fhi"}], "feature_collection_id": "fchi", "qualifiers": {}})
    return {"genes": genes, "feature_collections": fcs, "variant_collections": vcs, "name": "band", "qualifiers": {}}


def child_spans(o):
    out = []
    for g in o["genes"]:
        out.append((g["gene_id"], min(t["exons"][0][0] for t in g["transcripts"]), max(t["exons"][-1][1] for t in g["transcripts"])))
    for c in o["feature_collections"]:
        out.append((c["feature_collection_id"], min(f["blocks"][0][0] for f in c["features"]), max(f["blocks"][-1][1] for f in c["features"])))
    for c in o["variant_collections"]:
        out.append((c["variant_collection_id"], min(v["start"] for v in c["variants"]), max(v["end"] for v in c["variants"])))
    return out


def result_ids(res):
    return sorted([g.gene_id for g in res.genes] + [c.feature_collection_id for c in res.feature_collections]
                  + [c.variant_collection_id for c in res.variant_collections])


def check_prefilter(spec, ctx):
    b = spec["b"]
    on_chunk = spec.get("parent") == "chunk"
    o = band_collection(b, anchors=not on_chunk)
    if on_chunk:
        # (variant collections are left to the sequence-less modes: with a sequence they are also *applied* to the genes,
        #  which is C13's subject and meets known finding F26 of C09)
        o["variant_collections"] = []
        # the same band seen through a sequence chunk [b-40, b+40) with a genomic offset: bins are chromosome-level answers
        from inscripta.biocantor.io.parser import seq_chunk_to_parent
        parent = seq_chunk_to_parent("ACGTTGCA" * 10, "chr1", b - 40, b + 40)
        ctx.label("band_on_chunk")
    else:
        parent = Parent(id="chr1", sequence_type="chromosome") if spec.get("parent") == "id_only" else None
    if spec.get("shared_guid"):
        # one database record annotated at two loci: two genes (and two feature collections) carry the same caller-issued
        # identifier; position queries are about positions, whatever the identifiers
        w_ = 2 ** 17 + 40
        o["genes"][0]["guid"] = "00000000-0000-4000-8000-00000000abcd"
        o["genes"].append({"transcripts": [{"exons": [[b + w_, b + w_ + 3]], "strand": "+", "transcript_id": "tDup", "transcript_type": "ncRNA"}],
                           "gene_id": "gDup", "gene_type": "ncRNA", "qualifiers": {}, "guid": "00000000-0000-4000-8000-00000000abcd"})
        o["feature_collections"][0]["guid"] = "00000000-0000-4000-8000-00000000dcba"
        o["feature_collections"].append({"features": [{"blocks": [[b + w_ + 5, b + w_ + 7]], "strand": "+", "feature_id": "fDup"}], "feature_collection_id": "fcDup",
                                         "qualifiers": {}, "guid": "00000000-0000-4000-8000-00000000dcba"})
        ctx.label("two_members_share_a_caller_issued_guid")
    coll = mkcollection(o, parent)
    spans = child_spans(o)
    # the bin stored on every child and grandchild at construction is the reference bin of its span
    for child in coll.iter_children():
        for x in ([child] if "bin" in vars(child) else []) + list(child.iter_children()):
            ctx.eq("stored_bin", x.bin, ref_bin(x.start, x.end), extra={"span": [x.start, x.end], "type": type(x).__name__})
    # variants are binned by their reference span, anchor base included (a left-padded deletion whose anchor is the last base of a
    # bin, an insertion anchored on the boundary base, an unpadded deletion across the boundary)
    if b >= 2:
        from inscripta.biocantor.gene.variants import VariantInterval
        for vs_, ve_, alt_, vt_ in ((b - 1, b + 2, "T", "deletion"), (b - 1, b, "TAC", "insertion"), (b - 2, b + 1, "", "deletion"), (b - 1, b + 1, "GG", "MNV"), (b, b + 3, "A", "deletion")):
            v_ = VariantInterval(vs_, ve_, alt_, vt_)
            ctx.eq("variant_bin_is_the_bin_of_its_reference_span", v_.bin, ref_bin(vs_, ve_), extra=[vs_ - b, ve_ - b, alt_])
            ctx.eq("variant_span_kept", (v_.start, v_.end), (vs_, ve_))
        ctx.label("variants_across_the_boundary")
    cs, ce = coll.start, coll.end
    near = [b + d for d in range(-4, 5) if b + d >= 0]
    starts = sorted(set(near + [cs, max(0, b - 2 ** 17 - 1), max(0, b - 2 ** 17), max(0, b - 2 ** 17) + 1]))
    ends = sorted(set(near + [ce, b + 2 ** 17 - 1, b + 2 ** 17, b + 2 ** 17 + 1]))
    nq = 0
    for qs in starts:
        for qe in ends:
            if not (cs <= qs < qe <= ce):
                continue
            for cw in (True, False):
                nq += 1
                try:
                    res = coll.query_by_position(qs, qe, completely_within=cw)
                except InvalidQueryError as e:
                    ctx.fail("valid_band_query_refused", {"query": [qs, qe], "cw": cw, "err": str(e)[:80]})
                    continue
                if cw:
                    exp = sorted(i for i, s_, e_ in spans if qs <= s_ and e_ <= qe)
                else:
                    exp = sorted(i for i, s_, e_ in spans if max(qs, s_) < min(qe, e_))
                got = result_ids(res)
                if got != exp:
                    ctx.fail("prefiltered_query[cw=%d]" % cw, {"b": b, "query": [qs - b, qe - b], "hidden": sorted(set(exp) - set(got))[:4],
                                                                "extra": sorted(set(got) - set(exp))[:4]})
                if cw and qs > 0 and exp:
                    ctx.label("prefilter_active_nonempty")
                if not cw and "gWide" in exp and qe - qs < 2 ** 16:
                    ctx.label("relaxed_query_between_children_of_a_wide_member")
                if cw and qe == b + 1:
                    ctx.label("query_ends_one_past_boundary")
                if cw and qs == b - 1:
                    ctx.label("query_starts_one_before_boundary")
    ctx.nt("level%d" % spec["level"])
    ctx.label("queries:%d" % (nq // 100 * 100))


def enum_prefilter(tier, shard, nshards):
    cnt = 6 if tier == "quick" else 24
    i = 0
    seen = set()
    for level in range(5):
        for b in boundaries(level, cnt):
            if b == 0 or b in seen:
                continue
            seen.add(b)
            for parent in ("none", "id_only", "chunk") if tier != "quick" or level == 0 else ("none", "chunk"):
                if parent == "chunk" and b < 40:
                    continue
                i += 1
                if i % nshards == shard:
                    yield {"b": b, "level": level, "parent": parent}
                if parent == "none" and len(seen) % 3 == 0:
                    i += 1
                    if i % nshards == shard:
                        yield {"b": b, "level": level, "parent": parent, "shared_guid": True}


def pred_end_on_boundary(spec, clause, detail):
    s0, e0 = to0(spec["s"], spec["e"], spec["fmt"])
    return e0 % (1 << FIRST) == 0


EX_ASSIGN = [{"s": 0, "e": 2 ** 29 + 5, "fmt": "bed"}, {"s": 1, "e": 2 ** 29 + 1, "fmt": "gff"}, {"s": 0, "e": 2 ** 29, "fmt": "bed"}, {"s": 0, "e": 131071, "fmt": "bed"}, {"s": 131071, "e": 131073, "fmt": "bed"}, {"s": 1, "e": 131071, "fmt": "gff"},
             {"s": 2 ** 29 - 2, "e": 2 ** 29 - 1, "fmt": "bed"}, {"s": 2 ** 29, "e": 2 ** 29 + 5, "fmt": "bed"}, {"s": -1, "e": 4, "fmt": "bed"}]

PROP = Prop(
    pid="C16",
    legs=[
        Leg("bands", check_assign, enumerate=enum_bands, exhaustive=True, shards_quick=16, shards_thorough=16, examples=EX_ASSIGN,
            must_hit=["end_on_boundary", "out_of_range", "out_of_range_on_the_right_only"],
            rule="for every level 2^17..2^29: a set of boundaries (first, second, last, evenly spread; all for the coarsest levels), all ordered pairs of boundaries, ALL (start,end) with both ends within +-3 of them, both coordinate conventions"),
        Leg("random_assign", check_assign, strategy=strat_random_assign, n_quick=3000, n_thorough=40000, shards_quick=4,
            rule="random (start,end) up to 2^30 incl. out-of-range, boundary-biased"),
        Leg("never_hides", check_never_hides, strategy=strat_never_hides, n_quick=6000, n_thorough=60000, shards_quick=4,
            must_hit=["contained", "overlapping"],
            rule="pairs (query range, interval) where the interval is contained in / cut on the left / cut on the right / contains the query; boundary-biased; bins(I, one=True) must be in bins(Q, one=False)"),
        Leg("prefilter_bands", check_prefilter, enumerate=enum_prefilter, exhaustive=True, shards_quick=16, shards_thorough=16,
            must_hit=["prefilter_active_nonempty", "query_ends_one_past_boundary", "query_starts_one_before_boundary", "band_on_chunk", "relaxed_query_between_children_of_a_wide_member", "two_members_share_a_caller_issued_guid"],
            rule="integrated: for boundaries of every level (incl. 2^29), an AnnotationCollection (sequence-less, or on a sequence chunk [b-40,b+40) with that genomic offset) holding features of EVERY span inside b-3..b+3, "
                 "1-2 bp genes (one with isoforms on either side of b), SNVs at b-1,b,b+1 and two far anchors; ALL query ranges with both ends in b-4..b+4 "
                 "plus ends 2^17 away and the collection bounds, completely_within on/off; answer = brute-force membership; stored .bin of every child = reference bin"),
    ],
    rule="Oracle: smallest standard bin whose extent contains the 0-based half-open interval (offsets 4681/585/73/9/1, 2^17*8^level), re-typed; "
         "never-hides is judged independently of that. Non-trivial: an end point within +-3 of a 2^17 multiple. Distinct = (start,end,fmt).",
    assumptions=["bin numbering as documented in util/bins.py (UCSC extended offsets, 5 levels up to 2^29)"],
    predicates={"end_on_boundary": pred_end_on_boundary},
)
