"""C14 — BED12 export is valid BED and reproduces the interval in both coordinate modes."""
from hypothesis import strategies as st

import harness.compat  # noqa: F401
from harness import refmodel as rm
from harness import strategies as S
from harness.build import mktx, mkfeat, chrom_parent, chunk_parent
from harness.core import Leg, Prop
from inscripta.biocantor.exc import NoSuchAncestorException
from inscripta.biocantor.io.bed import RGB


def read_bed12(line):
    """independent 12-column reader"""
    cols = line.split("\t")
    if len(cols) != 12:
        raise ValueError("expected 12 columns, got %d" % len(cols))
    d = dict(chrom=cols[0], start=int(cols[1]), end=int(cols[2]), name=cols[3], score=int(cols[4]), strand=cols[5],
             thick_start=int(cols[6]), thick_end=int(cols[7]), rgb=cols[8], count=int(cols[9]),
             sizes=[int(x) for x in cols[10].rstrip(",").split(",")], starts=[int(x) for x in cols[11].rstrip(",").split(",")])
    return d


def check_bed(spec, ctx):
    kind = spec["kind"]
    obj_spec = spec["obj"]
    blocks = obj_spec["exons"] if kind == "tx" else obj_spec["blocks"]
    strand = obj_spec["strand"]
    lo, hi = blocks[0][0], blocks[-1][1]
    g = spec["genome"]
    mode = spec["mode"]  # chrom | chunk
    cs, ce = spec["chunk"]
    on_chunk = spec["parent"] == "chunk"
    cstrand = spec.get("chunk_strand", "+")
    if on_chunk:
        parent = chunk_parent(g, cs, ce, strand=cstrand)
    elif spec["parent"] == "chrom":
        parent = chrom_parent(g)
    else:
        parent = None
    obj = mktx(obj_spec, parent) if kind == "tx" else mkfeat(obj_spec, parent)
    coding = kind == "tx" and "cds" in obj_spec
    if len(blocks) >= 2 and ((mode == "chunk" and cs > 0) or coding):
        ctx.nt()
    if spec.get("cutting_chunk") and on_chunk:
        ctx.label("cutting_chunk_chromosome_mode")
    if mode == "chunk" and cs > 0:
        ctx.label("chunk_relative&cs>0")
    if coding:
        ctx.label("coding")
    if strand == "-":
        ctx.label("minus")
    if spec.get("big_coordinates"):
        ctx.label("coordinates>=10^6")
    if any(blocks[i][1] == blocks[i + 1][0] for i in range(len(blocks) - 1)):
        ctx.label("touching_blocks")
    name_sel = spec["name"]
    kw = dict(score=spec["score"], rgb=RGB(*spec["rgb"]), name=name_sel, chromosome_relative_coordinates=(mode == "chrom"))
    if spec.get("other_mode_first"):
        # the same object was exported in the other coordinate mode just before (the two records share nothing but the object)
        try:
            obj.to_bed12(**dict(kw, chromosome_relative_coordinates=not kw["chromosome_relative_coordinates"]))
            ctx.label("other_mode_exported_first")
        except NoSuchAncestorException:
            pass
    try:
        bed = obj.to_bed12(**kw)
    except NoSuchAncestorException:
        ctx.true("bed_refused_with_chunk_ancestor", mode == "chunk" and not on_chunk)
        ctx.refuse("no_chunk_ancestor")
        return
    if mode == "chunk" and not on_chunk:
        # without a chunk ancestor the chunk-relative location is the chromosome location
        shift = 0
        ctx.label("chunk_mode_without_chunk")
    else:
        shift = cs if mode == "chunk" else 0
    # a chunk that is the reverse complement of its window: chunk coordinate of chromosome position p is ce-1-p, so a block
    # [s, e) reads [ce-e, ce-s) there, the block order is reversed and the strand is the opposite one
    mirrored = mode == "chunk" and on_chunk and cstrand == "-"
    if mirrored:
        ctx.label("chunk_relative&minus_chunk")

    def conv(block):
        return (ce - block[1], ce - block[0]) if mirrored else (block[0] - shift, block[1] - shift)
    # the same record may be written to several tracks: a second export (and one with another score) of the same object
    # must be the same line (apart from the score); the second line is the one that is decoded below
    first = str(bed)
    again = str(obj.to_bed12(**kw))
    ctx.eq("second_export_same_line", again, first)
    other = str(obj.to_bed12(**dict(kw, score=(spec["score"] + 1) % 1000))).split("\t")
    ctx.eq("export_with_other_score_same_blocks", other[:4] + other[5:], first.split("\t")[:4] + first.split("\t")[5:])
    line = again
    try:
        d = read_bed12(line)
    except Exception as e:
        ctx.fail("bed_unparseable", {"line": line, "exc": repr(e)})
        return
    # format invariants
    ctx.eq("blockCount_sizes", d["count"], len(d["sizes"]))
    ctx.eq("blockCount_starts", d["count"], len(d["starts"]))
    ctx.eq("first_block_start_zero", d["starts"][0], 0)
    ctx.true("block_starts_ascending", all(a < b for a, b in zip(d["starts"], d["starts"][1:])), d["starts"])
    ctx.true("blocks_do_not_overlap", all(d["starts"][i] + d["sizes"][i] <= d["starts"][i + 1] for i in range(min(len(d["starts"]), len(d["sizes"])) - 1)), [d["starts"], d["sizes"]])
    ctx.eq("last_block_reaches_end", d["starts"][-1] + d["sizes"][-1], d["end"] - d["start"])
    ctx.true("start_le_end", 0 <= d["start"] <= d["end"], [d["start"], d["end"]])
    ctx.true("sizes_positive", all(s > 0 for s in d["sizes"]), d["sizes"])
    if coding:
        ctx.true("thick_inside", d["start"] <= d["thick_start"] <= d["thick_end"] <= d["end"], [d["start"], d["thick_start"], d["thick_end"], d["end"]])
    else:
        # documented convention for non-coding records: thickStart = thickEnd = 0 (no thick region)
        ctx.true("thick_noncoding", d["thick_start"] == d["thick_end"] and (d["thick_start"] == 0 or d["start"] <= d["thick_start"] <= d["end"]),
                 [d["thick_start"], d["thick_end"]])
    # decoding gives back the blocks
    dec = [(d["start"] + s, d["start"] + s + z) for s, z in zip(d["starts"], d["sizes"])]
    ctx.eq("decoded_blocks", dec, sorted(conv(b) for b in blocks))
    ctx.eq("decoded_span", (d["start"], d["end"]), conv((lo, hi)))
    ctx.eq("decoded_strand", d["strand"], {"+": "-", "-": "+", ".": "."}[strand] if mirrored else strand)
    if strand == ".":
        ctx.label("unstranded")
    ctx.eq("decoded_chrom", d["chrom"], "chr1")
    ctx.eq("decoded_score", d["score"], spec["score"])
    ctx.eq("decoded_rgb", d["rgb"], ",".join(str(x) for x in spec["rgb"]))
    if coding:
        cds = obj_spec["cds"]
        ctx.eq("decoded_cds_bounds", (d["thick_start"], d["thick_end"]), conv((cds[0][0], cds[-1][1])))
    # name
    attr_names = {"tx": ["transcript_symbol", "transcript_id", "protein_id"], "feat": ["feature_name", "feature_id"]}[kind]
    if name_sel in attr_names:
        exp_name = str(obj_spec.get(name_sel))
    elif name_sel == "guid":
        exp_name = str(obj.guid)
    elif name_sel in ("transcript_guid", "feature_guid", "sequence_name", "product", "id", "name"):
        # any attribute of the record may be named (documented: "the attribute to use as the name")
        exp_name = str(getattr(obj, name_sel))
        ctx.label("named_after_a_non_identifier_attribute")
    else:
        exp_name = name_sel
    ctx.eq("decoded_name", d["name"], exp_name)


@st.composite
def strat_bed(draw, tier="quick"):
    kind = draw(st.sampled_from(["tx", "tx", "feat"]))
    if kind == "tx":
        obj = draw(S.transcript_spec(max_exons=5, max_len=9, frameshift_prob=30, start_max=12, cds_overlap_prob=8, unstranded_prob=6, adjacent_exons=draw(st.booleans())))
        blocks = obj["exons"]
        names = ["transcript_symbol", "transcript_id", "guid", "my name", "protein_id", "transcript_guid", "sequence_name", "product", "id", "name"]
    else:
        obj = draw(S.feature_spec(max_blocks=5, max_len=9, start_max=12, adjacent_blocks=draw(st.booleans()), unstranded_prob=5))
        blocks = obj["blocks"]
        names = ["feature_name", "feature_id", "guid", "custom", "feature_guid", "sequence_name", "id", "name"]
    lo, hi = blocks[0][0], blocks[-1][1]
    n = hi + draw(st.integers(0, 6))
    g = draw(S.dna(n, n))
    cs = draw(st.sampled_from([0, lo, max(0, lo - 1)] + list(range(0, lo + 1))))
    ce = draw(st.sampled_from([hi, n] + list(range(hi, n + 1))))
    cutting = draw(st.integers(0, 4)) == 0 and hi - lo >= 2
    big = draw(st.integers(0, 7)) == 0
    if big:
        # coordinates of realistic size (a record far into a chromosome): no sequence is needed for a BED record
        sh_ = draw(st.sampled_from([10 ** 6 - 3, 10 ** 6, 123456789, 2 ** 31 + 7]))
        for key_ in ("exons", "cds", "blocks"):
            if key_ in obj:
                obj[key_] = [[b_[0] + sh_, b_[1] + sh_] for b_ in obj[key_]]
        return {"kind": kind, "obj": obj, "genome": "A", "chunk": [0, 1], "parent": "none", "cutting_chunk": False, "other_mode_first": draw(st.booleans()),
                "chunk_strand": "+", "mode": draw(st.sampled_from(["chrom", "chunk"])), "name": draw(st.sampled_from(names)), "score": draw(st.integers(0, 1000)),
                "rgb": [draw(st.integers(0, 255)) for _ in range(3)], "big_coordinates": True}
    if cutting:
        # a chunk that cuts the interval (or holds only part of its exons): the record in CHROMOSOME coordinates is the
        # whole-chromosome record all the same (chunk-relative export of such a chunk is outside the property's "exported blocks")
        cs = draw(st.integers(lo, hi - 1))
        ce = draw(st.integers(cs + 1, min(n, hi)))
    return {"kind": kind, "obj": obj, "genome": g, "chunk": [cs, ce], "parent": draw(st.sampled_from(["chunk", "chunk", "chrom", "none"])),
            "cutting_chunk": cutting, "other_mode_first": draw(st.booleans()) and not cutting, "chunk_strand": draw(st.sampled_from(["+", "+", "-"])),
            "mode": "chrom" if cutting else draw(st.sampled_from(["chrom", "chunk"])), "name": draw(st.sampled_from(names)), "score": draw(st.integers(0, 1000)),
            "rgb": [draw(st.integers(0, 255)) for _ in range(3)]}


EX = [
    {"kind": "tx", "obj": {"exons": [[4, 9], [15, 20]], "strand": "-", "cds": [[6, 9], [15, 18]], "frames": [0, 0], "transcript_symbol": "sym",
                           "transcript_id": "id1", "transcript_type": "protein_coding", "qualifiers": {}},
     "genome": "ACGT" * 7, "chunk": [2, 24], "parent": "chunk", "mode": "chunk", "name": "transcript_symbol", "score": 5, "rgb": [1, 2, 3]},
    {"kind": "feat", "obj": {"blocks": [[4, 9], [15, 20]], "strand": "+", "feature_name": "f", "feature_id": None, "feature_types": None, "qualifiers": {}},
     "genome": "ACGT" * 7, "chunk": [3, 21], "parent": "chunk", "mode": "chunk", "name": "feature_name", "score": 0, "rgb": [0, 0, 0]},
]

PROP = Prop(
    pid="C14",
    legs=[
        Leg("bed12", check_bed, strategy=strat_bed, examples=EX, n_quick=1500, n_thorough=15000,
            must_hit=["chunk_relative&cs>0", "coding", "minus", "touching_blocks", "chunk_relative&minus_chunk", "unstranded", "cutting_chunk_chromosome_mode", "coordinates>=10^6"],
            rule="transcripts (coding or not) and features of 1..5 blocks on both strands x parent {chunk containing the interval, whole chromosome, none} x export mode {chromosome, chunk-relative} x name selector x score x RGB; the text of the record is parsed by an independent 12-column reader"),
    ],
    rule="Oracle: BED12 format invariants + decoding back to blocks/strand/name/CDS bounds. Non-trivial: >=2 blocks and (chunk-relative with chunk start > 0, or coding).",
    assumptions=["chunk windows contain the interval (as the property states)", "non-coding records use thickStart=thickEnd=0 as documented by the writer"],
)
