"""C11 — GFF3 export is well-formed and gene models survive export -> parse."""
import io
import json
import os
import re
import tempfile
import warnings

from hypothesis import strategies as st

import harness.compat  # noqa: F401
from harness import refmodel as rm
from harness import strategies as S
from harness.build import mkcollection, chrom_parent, chunk_parent, as_container
from harness.core import Leg, Prop
from harness.readers import read_gff3, attrs_dict, FormatError
from inscripta.biocantor.io.gff3.exc import GFF3ExportException
from inscripta.biocantor.io.gff3.parser import parse_standard_gff3, parse_gff3_embedded_fasta
from inscripta.biocantor.io.gff3.rows import GFFAttributes
from inscripta.biocantor.io.gff3.writer import collection_to_gff3

SPECIALS = [";", "=", "%", "\t", "\n", "\r", " ", ">", "&", '"', "'", ",", "é", "λ", "中"]
KEEP_CASE = {"Alias", "Target", "Dbxref", "Gap", "Derives_from", "Note", "Ontology_term"}
RESERVED = {"ID", "Name", "Parent"}
PHASE_OF_FRAME = {0: 0, 1: 2, 2: 1}
# synonym biotype names are exported under their canonical name (gene/biotype.py, checked exhaustively in C15)
CANON = {"mRNA": "protein_coding", "protein-coding": "protein_coding", "miscRNA": "misc_RNA", "pseudo": "pseudogene", "lnc_RNA": "lncRNA"}


def canon(b):
    return CANON.get(b, b)


def emitted_key(k):
    return k if k in KEEP_CASE else k.lower()


def split_vals(vals):
    """documented: a comma inside a value is a value separator"""
    out = set()
    for v in vals:
        out.update(str(v).split(","))
    return out


def fold_q(q):
    """qualifiers as they are written: keys that differ only in letter case share one tag, whose values are the union"""
    out = {}
    for k, v in (q or {}).items():
        out.setdefault(emitted_key(k), set()).update(split_vals(v))
    return out


def merge(a, b):
    out = {k: set(v) for k, v in a.items()}
    for k, v in (b or {}).items():
        out.setdefault(k, set()).update(v)
    return out


def add_ids(q, pairs):
    for k, v in pairs:
        if v:
            q.setdefault(k, set()).add(v)
    return q


def qsets(q):
    return {k: set(str(x) for x in v) for k, v in (q or {}).items()}


def expected_rows(o, shift=0, chunk_mode=False, mirror_end=None):
    """list of expected rows (type, start0, end, strand, phase, Name, attrs-dict-of-sets, id_kind) in unsorted emission order.
    mirror_end: chunk-relative export from a chunk that is the reverse complement of its window [cs, mirror_end): a block
    [s, e) reads [mirror_end - e, mirror_end - s) in chunk coordinates and every strand is the opposite one"""
    if mirror_end is not None:
        flip = {"+": "-", "-": "+", ".": "."}
        return [(t, mirror_end - e, mirror_end - s, flip[st_], *rest) for t, s, e, st_, *rest in expected_rows(o, 0, chunk_mode)]
    rows = []
    members = [("gene", g) for g in o.get("genes", [])] + [("fc", c) for c in o.get("feature_collections", [])]
    for kind, m in members:
        if kind == "gene":
            txs = m["transcripts"]
            lo, hi = min(t["exons"][0][0] for t in txs), max(t["exons"][-1][1] for t in txs)
            gq = add_ids(qsets(m.get("qualifiers")), [("gene_id", m.get("gene_id")), ("gene_name", m.get("gene_symbol")),
                                                    ("gene_biotype", canon(m.get("gene_type")) or "unspecified"), ("locus_tag", m.get("locus_tag"))])
            rows.append(("gene", lo - shift, hi - shift, "+", ".", m.get("gene_symbol"), gq, None))
            for t in txs:
                tq = add_ids(merge(qsets(t.get("qualifiers")), gq), [("transcript_id", t.get("transcript_id")), ("transcript_name", t.get("transcript_symbol")),
                                                                      ("transcript_biotype", canon(t.get("transcript_type")) or "unspecified"), ("protein_id", t.get("protein_id"))])
                rows.append(("transcript", t["exons"][0][0] - shift, t["exons"][-1][1] - shift, t["strand"], ".", t.get("transcript_symbol"), tq, "gene"))
                for s, e in t["exons"]:
                    rows.append(("exon", s - shift, e - shift, t["strand"], ".", t.get("transcript_symbol"), tq, "tx"))
                if "cds" in t:
                    cq = add_ids(merge({}, tq), [("protein_id", t.get("protein_id")), ("product", t.get("product"))])
                    for (s, e), f in zip(t["cds"], t["frames"]):
                        # chunk-relative export recomputes frames and documents that a programmed frameshift is lost
                        ph = "*" if (chunk_mode and t.get("frameshift")) else str(PHASE_OF_FRAME[f])
                        rows.append(("CDS", s - shift, e - shift, t["strand"], ph, t.get("protein_id"), cq, "tx"))
        else:
            feats = m["features"]
            lo, hi = min(f["blocks"][0][0] for f in feats), max(f["blocks"][-1][1] for f in feats)
            types = set()
            for f in feats:
                types |= set(f.get("feature_types") or [])
            cq = add_ids(qsets(m.get("qualifiers")), [("feature_collection_id", m.get("feature_collection_id")), ("feature_collection_name", m.get("feature_collection_name")),
                                                     ("locus_tag", m.get("locus_tag")), ("feature_collection_type", m.get("feature_collection_type"))])
            if types:
                cq["feature_type"] = set(types)
            rows.append(("biological_region", lo - shift, hi - shift, "+", ".", m.get("feature_collection_name"), cq, None))
            for f in feats:
                fq = add_ids(merge(qsets(f.get("qualifiers")), cq), [("feature_name", f.get("feature_name")), ("feature_id", f.get("feature_id"))])
                if f.get("feature_types"):
                    fq["feature_type"] = set(f["feature_types"])
                rows.append(("feature_interval", f["blocks"][0][0] - shift, f["blocks"][-1][1] - shift, f["strand"], ".", f.get("feature_name"), fq, "fc"))
                for s, e in f["blocks"]:
                    rows.append(("subregion", s - shift, e - shift, f["strand"], ".", f.get("feature_name"), fq, "feat"))
    return rows


def export(spec, raise_reserved=True, ctx=None):
    o = spec["obj"]
    g = spec["genome"]
    chunk = spec.get("chunk")
    parent = chunk_parent(g, chunk[0], chunk[1], strand=spec.get("chunk_strand", "+")) if chunk else chrom_parent(g)
    coll = mkcollection(o, parent)
    buf = io.StringIO()
    with warnings.catch_warnings():
        warnings.simplefilter("ignore")
        collection_to_gff3(as_container([coll], spec.get("container", "list")), buf, add_sequences=spec["fasta"], chromosome_relative_coordinates=not spec["chunk_mode"],
                           raise_on_reserved_attributes=raise_reserved)
        if ctx is not None:
            if spec.get("scribble_rows"):
                # a caller derives another track from the rows it iterates (other seqid / source, shifted coordinates) by editing
                # them in place: the rows it was handed are its own, the collection's next export is not affected
                try:
                    for row in coll.to_gff(chromosome_relative_coordinates=not spec["chunk_mode"], raise_on_reserved_attributes=raise_reserved):
                        for attr, val in (("sequence_name", "derived"), ("seqid", "derived"), ("source", "caller")):
                            if hasattr(row, attr):
                                try:
                                    setattr(row, attr, val)
                                except Exception:
                                    pass
                        for attr in ("start", "end"):
                            if isinstance(getattr(row, attr, None), int):
                                try:
                                    setattr(row, attr, getattr(row, attr) + 1000)
                                except Exception:
                                    pass
                    ctx.label("caller_edited_iterated_rows")
                except Exception:
                    pass
            # writing the same collection object a second time gives the same file
            buf2 = io.StringIO()
            collection_to_gff3(as_container([coll], spec.get("container", "list")), buf2, add_sequences=spec["fasta"], chromosome_relative_coordinates=not spec["chunk_mode"],
                               raise_on_reserved_attributes=raise_reserved)
            ctx.true("second_export_same_file", buf2.getvalue() == buf.getvalue(), {"first": buf.getvalue()[:300], "second": buf2.getvalue()[:300]})
    return coll, buf.getvalue()


def has_reserved_key(o):
    def q(d):
        return any(k in RESERVED for k in (d.get("qualifiers") or {}))
    for g in o.get("genes", []):
        if q(g) or any(q(t) for t in g["transcripts"]):
            return True
    for c in o.get("feature_collections", []):
        if q(c) or any(q(f) for f in c["features"]):
            return True
    return False


def label_specials(ctx, o):
    text = json.dumps(o, ensure_ascii=False)
    for ch, name in ((";", "semicolon"), ("=", "equals"), ("%", "percent"), ("\\t", "tab"), ("\\n", "newline"), ("\\r", "cr"), (" ", "space"), (">", "gt"),
                     ("&", "amp"), ('\\"', "dquote"), ("'", "squote"), (",", "comma"), ("é", "unicode"), ("中", "unicode")):
        if ch in text:
            ctx.label("special_char:" + name)


def check_syntax(spec, ctx):
    o = spec["obj"]
    label_specials(ctx, {"q": [x.get("qualifiers") for g in o.get("genes", []) for x in [g] + g["transcripts"]] +
                              [x.get("qualifiers") for c in o.get("feature_collections", []) for x in [c] + c["features"]]})
    reserved = has_reserved_key(o)
    if reserved:
        ctx.label("reserved_key_in_qualifiers")
    multi_iso = any(len(g["transcripts"]) > 1 for g in o.get("genes", []))
    if multi_iso or any(t["strand"] == "-" or t.get("offset") for g in o.get("genes", []) for t in g["transcripts"]):
        ctx.nt()
    if spec["chunk_mode"]:
        ctx.label("chunk_mode")
    if spec.get("chunk") and not spec["chunk_mode"]:
        lo_ = min([t["exons"][0][0] for g_ in spec["obj"]["genes"] for t in g_["transcripts"]] + [f["blocks"][0][0] for c in spec["obj"]["feature_collections"] for f in c["features"]])
        hi_ = max([t["exons"][-1][1] for g_ in spec["obj"]["genes"] for t in g_["transcripts"]] + [f["blocks"][-1][1] for c in spec["obj"]["feature_collections"] for f in c["features"]])
        if spec["chunk"][0] > lo_ or spec["chunk"][1] < hi_:
            ctx.label("cutting_chunk_chromosome_coordinates")
    if spec["fasta"]:
        ctx.label("with_fasta")
    try:
        coll, text = export(spec, raise_reserved=spec["raise_reserved"], ctx=ctx)
    except GFF3ExportException as e:
        ok = (reserved and spec["raise_reserved"]) or (spec["chunk_mode"] and not spec.get("chunk")) or (spec["fasta"] and spec.get("chunk") and not spec["chunk_mode"])
        ctx.true("export_refused_unexpectedly", ok, repr(e)[:150])
        ctx.refuse("export_refused")
        return
    except Exception as e:
        from inscripta.biocantor.exc import NoSuchAncestorException
        if isinstance(e, NoSuchAncestorException) and spec["chunk_mode"] and not spec.get("chunk"):
            ctx.refuse("no_chunk_ancestor")
            return
        raise
    if reserved and spec["raise_reserved"]:
        ctx.fail("reserved_key_not_refused")
    try:
        doc = read_gff3(text)
    except FormatError as e:
        ctx.fail("gff3_unparseable", repr(e)[:200])
        return
    ctx.eq("header_first", doc["header"], "##gff-version 3")
    g = spec["genome"]
    chunk = spec.get("chunk")
    shift = chunk[0] if (spec["chunk_mode"] and chunk) else 0
    seq = g[chunk[0]:chunk[1]] if chunk else g
    mirrored = bool(chunk) and spec.get("chunk_strand", "+") == "-"
    if mirrored:
        seq = rm.revcomp(seq)
        ctx.label("minus_strand_chunk")
    if spec["fasta"]:
        ctx.eq("fasta_section", doc["fasta"], {"chr1": seq})
        ctx.true("sequence_region_directive", "##sequence-region chr1 1 %d" % len(seq) in doc["directives"], doc["directives"])
    else:
        ctx.eq("no_fasta_section", doc["fasta"], {})
    rows = doc["rows"]
    exp = expected_rows(o, shift, chunk_mode=bool(spec["chunk_mode"] and chunk), mirror_end=chunk[1] if (mirrored and spec["chunk_mode"]) else None)
    wild = {(t, s_, e_, st_) for t, s_, e_, st_, ph, *_ in exp if ph == "*"}
    # rows are matched by coordinates: another CDS with the very same coordinates as a wildcard row cannot be told apart from
    # it in the file, so its phase is not compared either
    exp = [(t, s_, e_, st_, "*" if (t, s_, e_, st_) in wild else ph, *rest) for t, s_, e_, st_, ph, *rest in exp]
    for r in rows:
        if (r["type"], r["start"] - 1, r["end"], r["strand"]) in wild and r["phase"] in ("0", "1", "2"):
            r["phase_cmp"] = "*"
    # column-level well-formedness
    ids = {}
    for r in rows:
        ctx.true("coordinates_1_based_inclusive", 1 <= r["start"] <= r["end"], r["raw"][:80])
        ctx.true("strand_symbol", r["strand"] in "+-." and len(r["strand"]) == 1, r["strand"])
        ctx.eq("seqid", r["seqid"], "chr1")
        ctx.eq("score_null", r["score"], ".")
        if r["type"] == "CDS":
            ctx.true("phase_on_cds", r["phase"] in ("0", "1", "2"), r["phase"])
        else:
            ctx.eq("phase_only_on_cds", r["phase"], ".")
        try:
            ad = attrs_dict(r)
        except FormatError as e:
            ctx.fail("duplicate_attribute_key", repr(e)[:150])
            continue
        r["ad"] = ad
        if not ctx.true("id_present", "ID" in ad and len(ad["ID"]) == 1, r["raw"][:80]):
            continue
        rid = ad["ID"][0]
        ctx.true("id_unique", rid not in ids, rid)
        if "Parent" in ad:
            for p in ad["Parent"]:
                ctx.true("parent_defined_earlier", p in ids, {"parent": p, "line": r["line"]})
        ids[rid] = r
    starts = [r["start"] for r in rows]
    ctx.eq("rows_ordered_by_start", starts, sorted(starts))
    # content: multiset of (type, start0, end, strand, phase) equals the source blocks
    got_ms = sorted((r["type"], r["start"] - 1, r["end"], r["strand"], r.get("phase_cmp", r["phase"])) for r in rows)
    exp_ms = sorted((t, s, e, st_, ph) for t, s, e, st_, ph, _, _, _ in exp)
    ctx.eq("rows_equal_source_blocks", got_ms, exp_ms)
    if got_ms != exp_ms:
        return
    # attributes: match rows to expectation by (type,start,end,strand,phase,Name,attrs) greedily
    remaining = list(exp)
    for r in rows:
        if "ad" not in r:
            continue
        ad = r["ad"]
        got_attrs = {k: set(v) for k, v in ad.items() if k not in RESERVED}
        name = ad.get("Name", [None])[0] if "Name" in ad else None
        key = (r["type"], r["start"] - 1, r["end"], r["strand"], r.get("phase_cmp", r["phase"]))
        cands = [x for x in remaining if x[:5] == key]
        match = None
        for x in cands:
            exp_attrs = {}
            for k, v in x[6].items():
                if k in RESERVED:
                    continue  # reserved keys coming from qualifiers are never emitted
                ek = emitted_key(k)
                exp_attrs.setdefault(ek, set()).update(split_vals(v))
            if exp_attrs == got_attrs and (x[5] if x[5] is None else str(x[5])) == name:
                match = x
                break
        if match is None:
            x = cands[0]
            exp_attrs = {}
            for k, v in x[6].items():
                if k not in RESERVED:
                    exp_attrs.setdefault(emitted_key(k), set()).update(split_vals(v))
            ctx.fail("attributes_decode_to_source", {"type": r["type"], "got": {k: sorted(v) for k, v in got_attrs.items()}, "expected": {k: sorted(v) for k, v in exp_attrs.items()},
                                                     "name": [name, x[5]]})
            remaining.remove(x)
        else:
            remaining.remove(match)
        # parent kind
        if r["type"] in ("gene", "biological_region"):
            ctx.true("top_level_has_no_parent", "Parent" not in ad)
        else:
            ctx.true("child_has_parent", "Parent" in ad and len(ad["Parent"]) == 1)
            if "Parent" in ad and ad["Parent"][0] in ids:
                ptype = ids[ad["Parent"][0]]["type"]
                want = {"transcript": "gene", "exon": "transcript", "CDS": "transcript", "feature_interval": "biological_region", "subregion": "feature_interval"}[r["type"]]
                ctx.eq("parent_type", ptype, want)
                pr = ids[ad["Parent"][0]]
                ctx.true("child_inside_parent", pr["start"] <= r["start"] and r["end"] <= pr["end"], {"child": r["raw"][:60], "parent": pr["raw"][:60]})


# ------------------------------------------------------------------------------------ several sequences in one file


def check_multi(spec, ctx):
    """one GFF3 file for several collections (one per sequence): a block of rows per sequence, in sequence-name order when
    ordered=True (the documented 'sequence then position sorted') and in the given order otherwise; every block is the file of
    its collection; IDs are unique and Parents resolve over the whole file; FASTA / sequence-region per sequence"""
    parts = spec["parts"]
    ctx.nt()
    colls = [mkcollection(p_["obj"], chrom_parent(p_["genome"], name=p_["name"]), sequence_name=p_["name"]) for p_ in parts]
    buf = io.StringIO()
    with warnings.catch_warnings():
        warnings.simplefilter("ignore")
        collection_to_gff3(as_container(colls, spec.get("container", "list")), buf, add_sequences=spec["fasta"], ordered=spec["ordered"])
    text = buf.getvalue()
    try:
        doc = read_gff3(text)
    except FormatError as e:
        ctx.fail("gff3_unparseable", repr(e)[:200])
        return
    ctx.eq("header_first", doc["header"], "##gff-version 3")
    order = sorted(parts, key=lambda p_: p_["name"]) if spec["ordered"] else list(parts)
    if [p_["name"] for p_ in order] != [p_["name"] for p_ in parts]:
        ctx.label("collections_given_out_of_name_order")
    if not spec["ordered"]:
        ctx.label("unordered")
    rows = doc["rows"]
    groups = []
    for r in rows:
        if not groups or groups[-1][0] != r["seqid"]:
            groups.append((r["seqid"], []))
        groups[-1][1].append(r)
    with_rows = [p_ for p_ in order if expected_rows(p_["obj"])]
    if not ctx.eq("one_block_of_rows_per_sequence_in_order", [gname for gname, _ in groups], [p_["name"] for p_ in with_rows]):
        return
    if spec["fasta"]:
        ctx.label("with_fasta")
        ctx.eq("fasta_section", doc["fasta"], {p_["name"]: p_["genome"] for p_ in parts})
        ctx.eq("sequence_region_directives", [d for d in doc["directives"] if d.startswith("##sequence-region")],
               ["##sequence-region %s 1 %d" % (p_["name"], len(p_["genome"])) for p_ in order])
    ids = {}
    for (gname, grows), p_ in zip(groups, with_rows):
        exp = expected_rows(p_["obj"])
        got_ms = sorted((r["type"], r["start"] - 1, r["end"], r["strand"], r["phase"]) for r in grows)
        ctx.eq("rows_equal_source_blocks", got_ms, sorted((t, s_, e_, st_, ph) for t, s_, e_, st_, ph, *_ in exp), extra=gname)
        starts = [r["start"] for r in grows]
        ctx.eq("rows_ordered_by_start", starts, sorted(starts), extra=gname)
        for r in grows:
            try:
                ad = attrs_dict(r)
            except FormatError as e:
                ctx.fail("duplicate_attribute_key", repr(e)[:150])
                continue
            if not ctx.true("id_present", "ID" in ad and len(ad["ID"]) == 1, r["raw"][:80]):
                continue
            rid = ad["ID"][0]
            ctx.true("id_unique", rid not in ids, {"id": rid, "sequence": gname, "first_seen_on": ids.get(rid)})
            for pa in ad.get("Parent", []):
                ctx.true("parent_defined_earlier", pa in ids, {"parent": pa, "line": r["line"]})
                ctx.true("parent_on_same_sequence", ids.get(pa) in (None, gname), {"parent": pa, "child_on": gname, "parent_on": ids.get(pa)})
            ids[rid] = gname


@st.composite
def strat_multi(draw, tier="quick"):
    k = draw(st.integers(2, 3))
    names = draw(st.lists(st.sampled_from(["chr1", "chr2", "chr10", "chrA", "chrB", "contig_7", "Chr1", "chrX"]), min_size=k, max_size=k, unique=True))
    parts = []
    for i, nm in enumerate(names):
        o = draw(S.collection_spec(max_genes=2, max_fcs=1, with_variants=False, region_step=30))
        hi = o.pop("hi")
        o.pop("variant_collections", None)
        for gi, g_ in enumerate(o["genes"]):
            g_["gene_id"] = "%s_g%d" % (nm, gi)     # distinct content per sequence (identical CDS on two sequences: see F24)
            for ti, t in enumerate(g_["transcripts"]):
                t["protein_id"] = "%s_p%d_%d" % (nm, gi, ti) if "cds" in t else None
        n = hi + draw(st.integers(1, 6))
        if i >= 1 and draw(st.integers(0, 5)) == 0:
            # a sequence nothing is annotated on yet: its block has the sequence-region (and FASTA) lines only
            o["genes"], o["feature_collections"] = [], []
        parts.append({"name": nm, "obj": o, "genome": draw(S.dna(n, n))})
    return {"parts": parts, "fasta": draw(st.booleans()), "ordered": draw(st.sampled_from([True, True, False])),
            "container": draw(st.sampled_from(["list", "tuple", "generator", "iterator"]))}


# ------------------------------------------------------------------------------------ re-parse leg


GUID_RE = re.compile(r"[0-9a-f]{8}-[0-9a-f]{4}-[0-9a-f]{4}-[0-9a-f]{4}-[0-9a-f]{12}")


def normalize_ids(text):
    """Digest-valued ID / Parent tokens are renamed canonically (by the content of the rows they occur in) and the
    rows are returned as a sorted list: the order of rows with equal start depends on the order in which the
    third-party reader hands children back, which the property does not constrain (ordering by start and
    parent-before-child are checked in the syntax leg)."""
    lines = [ln for ln in text.split("\n") if ln]
    # the order of the attributes inside column 9 carries no meaning (the writer orders them by the source spelling of the keys,
    # which a parsed collection no longer has: 'Xkey' is written, and read back, as 'xkey'): ID first, the others sorted
    def _canon(ln):
        cols = ln.split("\t")
        if len(cols) == 9 and not ln.startswith("#"):
            at = cols[8].split(";")
            # an isoform without a biotype of its own is written "unspecified" and read back with its gene's biotype (documented
            # fallback), so the two spellings denote the same thing in a re-export
            gb_ = [x.split("=", 1)[1] for x in at if x.startswith("gene_biotype=")]
            if gb_:
                at = [("transcript_biotype=" + gb_[0]) if x == "transcript_biotype=unspecified" else x for x in at]
            cols[8] = ";".join(at[:1] + sorted(at[1:]))
        return "\t".join(cols)
    lines = [_canon(ln) for ln in lines]
    occ = {}
    for ln in lines:
        masked = GUID_RE.sub("G", ln)
        for g in set(GUID_RE.findall(ln)):
            occ.setdefault(g, []).append(masked)
    order = sorted(occ, key=lambda g: sorted(occ[g]))
    label = {g: "G%d" % i for i, g in enumerate(order)}
    # guids with identical signatures are interchangeable; give them the same label
    sig = {}
    for g in order:
        key = json.dumps(sorted(occ[g]))
        sig.setdefault(key, label[g])
        label[g] = sig[key]
    return sorted(GUID_RE.sub(lambda m: label[m.group(0)], ln) for ln in lines)


def parse_text(text, fasta):
    # one scratch path per process, rewritten for every case: a round trip through "the" working file is the ordinary way to use a
    # parser, and nothing about a path may be remembered across parses
    path = os.path.join(tempfile.gettempdir(), "verif_c11_%d.gff3" % os.getpid())
    try:
        with open(path, "w") as fh:
            fh.write(text)
        fn = parse_gff3_embedded_fasta if fasta else parse_standard_gff3
        with warnings.catch_warnings():
            warnings.simplefilter("ignore")
            recs = list(fn(path))
        return recs
    finally:
        os.remove(path)


def check_reparse(spec, ctx):
    o = spec["obj"]
    ctx.nt()
    for g in o["genes"]:
        for t in g["transcripts"]:
            if t.get("transcript_type") and t["transcript_type"] != g["gene_type"]:
                ctx.label("tx_biotype!=gene_biotype")
            if "cds" in t and any(t["cds"][i][1] == t["cds"][i + 1][0] for i in range(len(t["cds"]) - 1)):
                ctx.label("zero_gap_cds")
            if any(k in ("identity", "names", "parental", "product_x", "idx") for k in (t.get("qualifiers") or {})):
                ctx.label("lookalike_key")
    if spec["fasta"]:
        ctx.label("with_fasta")
    coll, text = export(spec)
    recs = parse_text(text, spec["fasta"])
    if not ctx.eq("one_record", len(recs), 1):
        return
    parsed = recs[0].to_annotation_collection()
    if spec["fasta"]:
        ctx.true("sequence_attached", parsed.sequence is not None and str(parsed.sequence) == spec["genome"], repr(parsed.sequence)[:60])
    src_genes = {g["gene_id"]: g for g in o["genes"]}
    got_genes = {g.gene_id: g for g in parsed.genes}
    if not ctx.eq("gene_ids", sorted(got_genes), sorted(src_genes)):
        return
    for gid, sg in src_genes.items():
        pg = got_genes[gid]
        ctx.eq("gene_symbol", pg.gene_symbol, sg["gene_symbol"])
        ctx.eq("gene_locus_tag", pg.locus_tag, sg.get("locus_tag"))
        ctx.eq("gene_biotype", pg.gene_type.name if pg.gene_type else None, sg["gene_type"])
        gq = fold_q(sg.get("qualifiers"))
        ctx.eq("gene_qualifiers", {k: set(v) for k, v in (pg.qualifiers or {}).items()}, gq)
        src_tx = {t["transcript_id"]: t for t in sg["transcripts"]}
        got_tx = {t.transcript_id: t for t in pg.transcripts}
        if not ctx.eq("transcript_ids", sorted(got_tx), sorted(src_tx)):
            continue
        for tid, stx in src_tx.items():
            pt = got_tx[tid]
            ctx.eq("tx_exons", [(b.start, b.end) for b in pt.chromosome_location.blocks], [tuple(b) for b in stx["exons"]])
            ctx.eq("tx_strand", pt.strand.to_symbol(), stx["strand"])
            ctx.eq("tx_symbol", pt.transcript_symbol, stx["transcript_symbol"])
            ctx.eq("tx_biotype", pt.transcript_type.name if pt.transcript_type else None, stx["transcript_type"] or sg["gene_type"])
            if stx["transcript_type"] is None and any(t2.get("transcript_type") not in (None, sg["gene_type"]) for t2 in sg["transcripts"]):
                ctx.label("untyped_isoform_next_to_one_of_another_biotype")
            if "cds" in stx:
                if ctx.true("tx_cds_present", pt.cds is not None):
                    ctx.eq("tx_cds_blocks", list(zip(pt.cds._genomic_starts, pt.cds._genomic_ends)), [tuple(b) for b in stx["cds"]])
                    ctx.eq("tx_cds_frames", [f.value for f in pt.cds.frames], stx["frames"])
                    ctx.eq("tx_protein_id", pt.protein_id, stx.get("protein_id"))
                    ctx.eq("tx_product", pt.product, stx.get("product"))
            else:
                ctx.true("tx_cds_absent", pt.cds is None)
            # a parsed transcript carries its own qualifiers plus its gene's (children rows repeat their parents' qualifiers)
            tq = merge(fold_q(stx.get("qualifiers")), gq)
            ctx.eq("tx_qualifiers", {k: set(v) for k, v in (pt.qualifiers or {}).items()}, tq)
    # re-export reproduces the file (up to digest-valued ID tokens), and is a fixpoint one round later
    def reexport(c):
        buf = io.StringIO()
        with warnings.catch_warnings():
            warnings.simplefilter("ignore")
            collection_to_gff3([c], buf, add_sequences=spec["fasta"])
        return buf.getvalue()

    t1 = reexport(parsed)
    n0, n1 = normalize_ids(text), normalize_ids(t1)
    if n0 != n1:
        only0 = [x for x in n0 if x not in n1][:2]
        only1 = [x for x in n1 if x not in n0][:2]
        ctx.fail("reexport_reproduces_file", {"only_in_original": only0, "only_in_reexport": only1, "lens": [len(n0), len(n1)]})
    recs2 = parse_text(t1, spec["fasta"])
    t2 = reexport(recs2[0].to_annotation_collection())
    n2 = normalize_ids(t2)
    if n2 != n1:
        ctx.fail("reexport_fixpoint", {"only_in_t1": [x for x in n1 if x not in n2][:2], "only_in_t2": [x for x in n2 if x not in n1][:2]})
    # identifiers are content digests: once the content is stable the digest-valued IDs are stable too
    ctx.eq("reexport_fixpoint_ids", sorted(set(GUID_RE.findall(t2))), sorted(set(GUID_RE.findall(t1))))


# ------------------------------------------------------------------------------------ re-parse of feature collections


def check_reparse_features(spec, ctx):
    """feature collections through export -> parse: the collection-level facts survive (count, name, locus tag, qualifiers, span,
    sequence name, the union of feature types, every base of every feature covered, direction); the structure of the features
    inside a collection does not (finding F27)"""
    o = spec["obj"]
    ctx.nt()
    coll, text = export(dict(spec, chunk_mode=False, fasta=False))
    recs = parse_text(text, False)
    if not ctx.eq("one_record", len(recs), 1):
        return
    parsed = recs[0].to_annotation_collection()
    src = {c["locus_tag"]: c for c in o["feature_collections"]}
    got = {c.locus_tag: c for c in parsed.feature_collections}
    ctx.eq("fc_no_genes_invented", len(parsed.genes), 0)
    if not ctx.eq("fc_locus_tags", sorted(got), sorted(src)):
        return
    structure_ok = True
    for lt, sc in src.items():
        pc = got[lt]
        feats = sc["features"]
        lo, hi = min(f["blocks"][0][0] for f in feats), max(f["blocks"][-1][1] for f in feats)
        ctx.eq("fc_name", pc.feature_collection_name, sc.get("feature_collection_name"))
        ctx.eq("fc_span", (pc.start, pc.end), (lo, hi))
        ctx.eq("fc_sequence_name", pc.sequence_name, "chr1")
        cq = fold_q(sc.get("qualifiers"))
        ctx.eq("fc_qualifiers", {k: set(v) for k, v in (pc.qualifiers or {}).items()}, cq)
        src_types = set(t for f in feats for t in (f.get("feature_types") or []))
        got_types = set(t for f in pc.feature_intervals for t in (f.feature_types or []))
        ctx.true("fc_feature_types_kept", src_types <= got_types, {"source": sorted(src_types), "parsed": sorted(got_types)})
        src_pos = set(p for f in feats for b in f["blocks"] for p in range(b[0], b[1]))
        got_pos = set(p for f in pc.feature_intervals for b in f.chromosome_location.blocks for p in range(b.start, b.end))
        ctx.true("fc_every_feature_base_covered", src_pos <= got_pos <= set(range(lo, hi)), {"missing": sorted(src_pos - got_pos)[:5], "outside_span": sorted(got_pos - set(range(lo, hi)))[:5]})
        strands = {f["strand"] for f in feats}
        if len(strands) == 1:
            ctx.eq("fc_direction", sorted({f.strand.to_symbol() for f in pc.feature_intervals}), sorted(strands))
        names = {f.get("feature_name") for f in feats}
        ctx.true("fc_feature_names_from_source", all(f.feature_name in names for f in pc.feature_intervals), [f.feature_name for f in pc.feature_intervals])
        want = sorted((tuple(map(tuple, f["blocks"])), f["strand"], f.get("feature_name"), f.get("feature_id")) for f in feats)
        have = sorted((tuple((b.start, b.end) for b in f.chromosome_location.blocks), f.strand.to_symbol(), f.feature_name, f.feature_id) for f in pc.feature_intervals)
        if have != want:
            structure_ok = False
            ctx.fail("fc_features_structure", {"got": have, "expected": want})
    if len(o["feature_collections"]) and any(len(c["features"]) > 1 or len(c["features"][0]["blocks"]) > 1 for c in o["feature_collections"]):
        ctx.label("multi_feature_or_multi_block_collection")
    # re-export
    buf = io.StringIO()
    with warnings.catch_warnings():
        warnings.simplefilter("ignore")
        collection_to_gff3([parsed], buf)
    n0, n1 = normalize_ids(text), normalize_ids(buf.getvalue())
    if n0 != n1:
        ctx.fail("fc_reexport_reproduces_file", {"only_in_original": [x for x in n0 if x not in n1][:2], "only_in_reexport": [x for x in n1 if x not in n0][:2]})


@st.composite
def strat_reparse_features(draw, tier="quick"):
    n_fc = draw(st.integers(1, 2))
    fcs = []
    cursor = draw(st.integers(0, 4))
    for i in range(n_fc):
        fc = draw(S.feature_collection_spec(max_feat=draw(st.sampled_from([1, 1, 2, 3])), max_blocks=draw(st.sampled_from([1, 1, 2, 3])), max_len=7, region=[cursor, 0]))
        fc["locus_tag"] = "FLT_%d" % i
        fc["feature_collection_name"] = draw(st.one_of(st.none(), st.just("fcname%d" % i)))
        fc["feature_collection_id"] = draw(st.one_of(st.none(), st.just("fcid%d" % i)))
        fc["qualifiers"] = draw(S.simple_qualifiers(2))
        for j, f in enumerate(fc["features"]):
            f["feature_name"] = "feat%d_%d" % (i, j)
            f["qualifiers"] = draw(S.simple_qualifiers(1))
        fcs.append(fc)
        cursor = max(f["blocks"][-1][1] for f in fc["features"]) + draw(st.integers(1, 6))
    n = cursor + draw(st.integers(1, 5))
    return {"obj": {"genes": [], "feature_collections": fcs, "name": None}, "genome": draw(S.dna(n, n))}


def pred_fc_structure(spec, clause, detail):
    """F27: a collection with more than one feature, or a feature of more than one block (the writer emits three levels, the parser
    reads a top-level feature and its direct children only)"""
    return any(len(c["features"]) > 1 or any(len(f["blocks"]) > 1 for f in c["features"]) for c in spec["obj"].get("feature_collections", []))


# ------------------------------------------------------------------------------------ attribute escaping leg


def check_attributes(spec, ctx):
    q = {k: set(v) for k, v in spec["qualifiers"].items()}
    label_specials(ctx, spec)
    ctx.nt()
    try:
        with warnings.catch_warnings():
            warnings.simplefilter("ignore")
            s = str(GFFAttributes(id=spec["id"], qualifiers=q, name=spec["name"], parent=spec["parent"], raise_on_reserved_attributes=False))
    except GFF3ExportException as e:
        ctx.fail("attributes_refused", repr(e)[:100])
        return
    ctx.true("no_raw_tab_newline", not any(c in s for c in "\t\n\r"), s[:100])
    pairs = s.split(";")
    dec = []
    for p in pairs:
        if "=" not in p:
            ctx.fail("attribute_without_equals", p[:60])
            return
        k, v = p.split("=", 1)
        dec.append((k, v))
    from urllib.parse import unquote
    ctx.eq("id_first", (dec[0][0], unquote(dec[0][1])), ("ID", spec["id"]))
    d = {}
    for k, v in dec:
        d.setdefault(unquote(k), []).append(v)
    ctx.true("keys_unique", all(len(v) == 1 for v in d.values()), {k: len(v) for k, v in d.items()})
    ctx.eq("id_single_value", unquote(d["ID"][0]), spec["id"])
    if spec["parent"] is not None:
        ctx.eq("parent_value", unquote(d.get("Parent", [""])[0]), spec["parent"])
    if spec["name"] is not None:
        ctx.eq("name_value", unquote(d.get("Name", [""])[0]), spec["name"])
    exp = {}
    for k, vals in spec["qualifiers"].items():
        if k in RESERVED or not vals:
            continue
        exp.setdefault(emitted_key(k), set()).update(split_vals(vals))
    got = {k: set(unquote(x) for x in v[0].split(",")) for k, v in d.items() if k not in RESERVED}
    ctx.eq("qualifiers_decode_to_source", {k: sorted(v) for k, v in got.items()}, {k: sorted(v) for k, v in exp.items()})
    # the separators of the format never appear unescaped inside a key or value
    for k, v in dec:
        ctx.true("no_unescaped_separator_in_key", not any(c in k for c in ";=\t\n\r ,"), k)
        ctx.true("no_unescaped_separator_in_value", not any(c in v for c in ";=\t\n\r >"), v)


# ------------------------------------------------------------------------------------ strategies

# (incl. white space that is not ASCII - no-break, thin and ideographic space - which must come back as it went in)
VAL_ALPHA = "abcXYZ019_.-" + "".join(SPECIALS) + "\u00a0\u2009\u3000"


def qual_strategy(specials=True, allow_comma=True, allow_dquote=True, lookalikes=True, reserved=False, max_keys=3):
    alpha = "abcXYZ019_.-"
    if specials:
        alpha = VAL_ALPHA
    if not allow_comma:
        alpha = alpha.replace(",", "")
    if not allow_dquote:
        alpha = alpha.replace('"', "")
    keys = ["note", "color", "evidence", "db_xref", "inference", "xkey"]
    if lookalikes:
        keys += ["identity", "names", "parental", "product_x", "idx", "Note", "Dbxref", "gene_synonym", "label2",
                 # keys that differ from another key only in letter case (GenBank- and GFF3-derived qualifiers combined)
                 "Color", "EVIDENCE", "ec_number", "EC_number", "Xkey"]
    if reserved:
        keys += ["ID", "Name", "Parent"]
    val = st.text(alphabet=alpha, min_size=1, max_size=7)
    return st.dictionaries(st.sampled_from(keys), st.lists(val, min_size=1, max_size=3, unique=True), max_size=max_keys)


@st.composite
def strat_syntax(draw, tier="quick"):
    o = draw(S.collection_spec(max_genes=2, max_fcs=2, with_variants=False, region_step=30, feat_kw={"unstranded_prob": 5}, tx_kw={"unstranded_gene_prob": 6}))
    hi = o.pop("hi")
    o.pop("variant_collections", None)
    reserved = draw(st.integers(0, 7)) == 0
    qs = qual_strategy(reserved=reserved)
    for g in o["genes"]:
        g["qualifiers"] = draw(qs)
        for t in g["transcripts"]:
            t["qualifiers"] = draw(qs)
    for c in o["feature_collections"]:
        c["qualifiers"] = draw(qs)
        for f in c["features"]:
            f["qualifiers"] = draw(qs)
    n = hi + draw(st.integers(1, 6))
    if draw(st.integers(0, 5)) == 0:
        # sequence lengths around the FASTA line length (60): one base more, one base less, exactly one or two lines
        n = max(n, draw(st.sampled_from([59, 60, 61, 119, 120, 121])))
    sp = {"obj": o, "genome": draw(S.dna(n, n)), "fasta": draw(st.booleans()), "raise_reserved": draw(st.booleans()),
          "container": draw(st.sampled_from(["list", "list", "tuple", "generator", "iterator"])), "scribble_rows": draw(st.integers(0, 2)) == 0}
    lo = min([t["exons"][0][0] for g in o["genes"] for t in g["transcripts"]] + [f["blocks"][0][0] for c in o["feature_collections"] for f in c["features"]])
    r = draw(st.integers(0, 5))
    if r == 0:
        # a chunk that CUTS the members, exported in chromosome coordinates: the file must be the whole-chromosome file
        a = draw(st.integers(lo, hi - 1))
        sp["chunk"] = [a, draw(st.integers(a + 1, min(n, hi)))] if draw(st.booleans()) else [draw(st.integers(0, lo)), draw(st.integers(lo + 1, hi))]
        sp["chunk_mode"] = False
        sp["fasta"] = False
    elif r <= 2:
        sp["chunk"] = [draw(st.integers(0, lo)), draw(st.integers(hi, n))]
        sp["chunk_mode"] = draw(st.sampled_from([True, True, False]))
        sp["chunk_strand"] = draw(st.sampled_from(["+", "+", "-"]))
    else:
        sp["chunk_mode"] = draw(st.integers(0, 9)) == 0
    return sp


@st.composite
def strat_reparse(draw, tier="quick"):
    ng = draw(st.integers(1, 3))
    genes = []
    qs = qual_strategy(allow_comma=False, allow_dquote=False, reserved=False, max_keys=2)
    for i in range(ng):
        coding = draw(st.sampled_from([True, True, False]))
        g = draw(S.gene_spec(max_tx=3, max_exons=3, max_len=8, region=[i * draw(st.sampled_from([0, 6, 30])), 0], frameshift_prob=10, cds_overlap_prob=8, unstranded_gene_prob=8))
        g["gene_id"] = "gene%d" % i
        g["gene_symbol"] = "SYM%d%s" % (i, draw(st.text(alphabet="abc ;=%", max_size=3)))
        g["gene_type"] = draw(st.sampled_from(["protein_coding", "ncRNA", "lncRNA", "pseudogene"]))
        g["locus_tag"] = draw(st.one_of(st.none(), st.just("LT%d" % i)))
        g["qualifiers"] = draw(qs)
        for j, t in enumerate(g["transcripts"]):
            t["transcript_id"] = "g%dt%d" % (i, j)
            t["transcript_symbol"] = "ts%d_%d%s" % (i, j, draw(st.text(alphabet="xy &'>", max_size=2)))
            # (an isoform may carry no biotype of its own: it is written "unspecified" and read back with the gene's)
            t["transcript_type"] = draw(st.sampled_from([g["gene_type"], g["gene_type"], "protein_coding" if "cds" in t else "ncRNA", "tRNA", None]))
            t["qualifiers"] = draw(qs)
            if "cds" in t:
                t["protein_id"] = draw(st.one_of(st.none(), st.just("prot%d_%d" % (i, j))))
                t["product"] = draw(st.one_of(st.none(), st.text(alphabet="abc d;=%&'", min_size=1, max_size=8)))
        genes.append(g)
    hi = max(t["exons"][-1][1] for g in genes for t in g["transcripts"])
    n = hi + draw(st.integers(1, 5))
    return {"obj": {"genes": genes, "feature_collections": [], "name": None}, "genome": draw(S.dna(n, n)), "fasta": draw(st.booleans()), "chunk_mode": False}


@st.composite
def strat_attributes(draw, tier="quick"):
    val = st.text(alphabet=VAL_ALPHA, min_size=1, max_size=8)
    return {"id": draw(val), "name": draw(st.one_of(st.none(), val)), "parent": draw(st.one_of(st.none(), val)),
            "qualifiers": draw(qual_strategy(reserved=draw(st.booleans()), max_keys=5))}


def pred_dup_cds(spec, clause, detail):
    """two transcripts of the exported file (isoforms of a gene, or transcripts on two sequences of one file) describe the same
    CDS (blocks, strand, frames, protein id, product)"""
    seen = set()
    objs = [spec["obj"]] if "obj" in spec else [p_["obj"] for p_ in spec.get("parts", [])]
    for o in objs:
        for g in o.get("genes", []):
            for t in g["transcripts"]:
                if "cds" in t:
                    key = json.dumps([t["cds"], t["strand"], t["frames"], t.get("protein_id"), t.get("product")])
                    if key in seen:
                        return True
                    seen.add(key)
    return False


def _ex_gene(strand, cds, frames, exons):
    return {"transcripts": [{"exons": exons, "strand": strand, "cds": cds, "frames": frames, "offset": 0, "frameshift": True, "transcript_id": "g0t0", "transcript_symbol": "ts0",
                             "transcript_type": "protein_coding", "protein_id": "p0", "product": None, "qualifiers": {}}],
            "gene_id": "gene0", "gene_symbol": "SYM0", "gene_type": "protein_coding", "locus_tag": "LT0", "qualifiers": {}}


# programmed frameshifts whose CDS rows all carry phase 0 (frames all ZERO although a block before the last one is not a multiple
# of three long): the written phases are the annotation, not something to re-derive from the block lengths
EX_REPARSE = [
    {"obj": {"genes": [_ex_gene("+", [[2, 12], [16, 25]], [0, 0], [[0, 12], [16, 28]])], "feature_collections": [], "name": None}, "genome": "ACGT" * 8, "fasta": True, "chunk_mode": False},
    {"obj": {"genes": [_ex_gene("-", [[2, 12], [16, 24]], [0, 0], [[0, 12], [16, 28]])], "feature_collections": [], "name": None}, "genome": "ACGT" * 8, "fasta": False, "chunk_mode": False},
]

PROP = Prop(
    pid="C11",
    legs=[
        Leg("syntax", check_syntax, strategy=strat_syntax, n_quick=350, n_thorough=3500, shards_quick=4,
            must_hit=["special_char:semicolon", "special_char:equals", "special_char:percent", "special_char:tab", "special_char:newline", "special_char:cr",
                      "special_char:space", "special_char:gt", "special_char:amp", "special_char:dquote", "special_char:squote", "special_char:comma",
                      "special_char:unicode", "chunk_mode", "with_fasta", "reserved_key_in_qualifiers", "cutting_chunk_chromosome_coordinates"],
            rule="collections (genes with 1..2 isoforms, feature collections) with qualifier values over the full special-character set and look-alike/reserved keys, +-FASTA, chromosome or chunk-relative mode; the text is read by an independent 9-column reader with percent-decoding"),
        Leg("reparse_features", check_reparse_features, strategy=strat_reparse_features, n_quick=40, n_thorough=400, shards_quick=4,
            must_hit=["multi_feature_or_multi_block_collection"],
            rule="1..2 feature collections (1..3 features of 1..3 blocks, qualifiers) exported and parsed back: count, locus tag, name, collection qualifiers, span, sequence name, union of feature types, coverage of every feature base, direction; the inner structure of the features is finding F27"),
        Leg("multi_sequence", check_multi, strategy=strat_multi, n_quick=120, n_thorough=1500, shards_quick=4,
            must_hit=["collections_given_out_of_name_order", "unordered", "with_fasta"],
            rule="2..3 collections on differently named sequences written into ONE file (ordered / unordered, +-FASTA): one block of rows per sequence in the documented order, each block equal to its collection's rows and ordered by start, IDs unique and Parents resolving over the whole file, one FASTA record and sequence-region directive per sequence"),
        Leg("reparse", check_reparse, strategy=strat_reparse, examples=EX_REPARSE, n_quick=70, n_thorough=700, shards_quick=8,
            must_hit=["tx_biotype!=gene_biotype", "zero_gap_cds", "lookalike_key", "with_fasta", "untyped_isoform_next_to_one_of_another_biotype"],
            rule="1..3 genes (1..3 isoforms, coding/non-coding, offsets, 0-bp-gap CDS, transcript biotype equal to or different from the gene's), qualifier values without comma/double quote; export -> parse_standard_gff3 / parse_gff3_embedded_fasta -> compare -> re-export"),
        Leg("attributes", check_attributes, strategy=strat_attributes, n_quick=2500, n_thorough=50000,
            must_hit=["special_char:semicolon", "special_char:percent", "special_char:comma", "special_char:unicode"],
            rule="GFFAttributes alone: ID/Name/Parent and up to 5 qualifier keys with special characters; decoded text must equal the source"),
    ],
    rule="Oracle: independent GFF3 reader + source blocks/frames/identifiers; library re-parse; re-export up to digest-valued ID tokens and exact fixpoint. "
         "Non-trivial: >=2 isoforms or offset != 0 or minus strand.",
    assumptions=[
        "re-parse leg excludes comma and double quote (third-party reader limits, as the property states) and uses genes that carry gene_id, symbol and transcript ids",
        "qualifier keys differ case-insensitively (keys are lower-cased on export, documented)",
        "gffutils 0.14 as installed",
    ],
    predicates={"dup_cds": pred_dup_cds, "fc_structure": pred_fc_structure,
                "fc_any": lambda spec, clause, detail: bool(spec["obj"].get("feature_collections")),
                "fc_mixed_strands": lambda spec, clause, detail: any(len({f["strand"] for f in c["features"]}) > 1 for c in spec["obj"].get("feature_collections", []))},
)
