"""C18 — identifier/qualifier extraction is order-independent and priority-respecting."""
import io
import itertools
import json
import string
import warnings

from hypothesis import strategies as st

import harness.compat  # noqa: F401
from Bio import SeqIO
from harness import strategies as S
from harness.core import Leg, Prop
from inscripta.biocantor.io.features import extract_feature_name_id, extract_feature_types, merge_qualifiers
from inscripta.biocantor.io.genbank.constants import GenBankParserType
from inscripta.biocantor.io.genbank.parser import parse_genbank

from checks.c12 import _one_record as gb_one_record, export as gb_export

# documented priority lists (io/features/__init__.py docstrings), typed here
NAME_RANK = {"feature_name": 0, "standard_name": 10, "name": 15, "gene": 20, "gene_name": 30, "label": 40, "operon": 50}
ID_RANK = {"feature_id": 0, "id": 255}
# look-alikes: a recognised key with something before or after it - word characters, and also separators that a regex word
# boundary would accept ("gene-synonym", "label.color", "ID:previous", "Name (old)")
LOOKALIKES = ["gene_names", "xid", "idx", "label2", "names", "feature_names", "standard_name_x", "my_gene", "ids",
              "gene-synonym", "label.color", "ID:previous", "name (old)", "locus_tag/2", "x-id"]
ALL_KEYS = list(NAME_RANK) + list(ID_RANK) + LOOKALIKES


def apply_case(key, mode):
    if mode == 0:
        return key
    if mode == 1:
        return key.upper()
    if mode == 2:
        return key.capitalize()
    return "".join(c.upper() if i % 2 else c for i, c in enumerate(key))


def expected_name_id(keys_cased, values):
    name = nid = None
    best_n = best_i = None
    for k in keys_cased:
        lk = k.lower()
        if lk in NAME_RANK and (best_n is None or NAME_RANK[lk] < best_n):
            best_n, name = NAME_RANK[lk], values[k][0]
        if lk in ID_RANK and (best_i is None or ID_RANK[lk] < best_i):
            best_i, nid = ID_RANK[lk], values[k][0]
    return name, nid


def enum_subsets(tier, shard, nshards):
    maxk = 4 if tier == "quick" else 5
    i = 0
    for k in range(1, maxk + 1):
        for combo in itertools.combinations(ALL_KEYS, k):
            for case_mode in ((0,) if k > 3 else (0, 1, 2, 3)):
                i += 1
                if i % nshards == shard:
                    yield {"keys": list(combo), "case": case_mode, "all_orders": True}


def check_name_id(spec, ctx):
    keys = [apply_case(k, spec["case"] if (j % 2 == 0 or spec["case"] in (0, 1)) else 0) for j, k in enumerate(spec["keys"])]
    values = {k: ["val_%s" % k.lower(), "second"] for k in keys}
    if spec.get("empty_value_at") is not None and keys and not spec.get("note"):
        # (without a /note: whether an empty identifier counts as "no identifier" for the note fallback is not documented)
        values[keys[spec["empty_value_at"] % len(keys)]] = [""]
        ctx.label("a_key_with_one_empty_value")
    if spec.get("note"):
        values["note"] = [spec["note"]]
    recognised = [k for k in keys if k.lower() in NAME_RANK or k.lower() in ID_RANK]
    exp = expected_name_id(keys, values)
    if exp == (None, None) and "note" in values:
        tok = values["note"][0].split()
        exp_note = tok[0].strip(string.punctuation) if tok else None
        exp = (exp_note, exp_note) if tok else (None, None)
        ctx.label("note_fallback")
    if any(k.lower() not in NAME_RANK and k.lower() not in ID_RANK for k in keys):
        ctx.label("lookalike_present")
    if spec["case"]:
        ctx.label("mixed_case")
    allkeys = keys + (["note"] if "note" in values else [])
    if spec.get("all_orders"):
        orders = itertools.permutations(allkeys)
    else:
        orders = [allkeys] + [list(p) for p in spec["orders"]]
    n = 0
    for order in orders:
        order = list(order)
        if not spec.get("all_orders"):
            order = [allkeys[i % len(allkeys)] for i in order] if order and isinstance(order[0], int) else order
            if sorted(order) != sorted(allkeys):
                continue
        n += 1
        q = {k: list(values[k]) for k in order}
        got = extract_feature_name_id(q)
        if got != exp:
            ctx.fail("name_id_priority", {"order": order, "got": list(got), "expected": list(exp)})
            break
        rank0 = [k for k in order if k.lower() in ("feature_name", "feature_id")]
        if rank0 and len(recognised) >= 2:
            pos = order.index(rank0[0])
            ctx.label("rank0_first" if pos == 0 else ("rank0_last" if pos == len(order) - 1 else "rank0_middle"))
    if len(recognised) >= 2:
        ctx.nt()


@st.composite
def strat_name_id(draw, tier="quick"):
    k = draw(st.integers(5, 9))
    keys = draw(st.lists(st.sampled_from(ALL_KEYS), min_size=k, max_size=k, unique=True))
    orders = [list(draw(st.permutations(list(range(len(keys) + 1))))) for _ in range(8)]
    note = draw(st.one_of(st.none(), st.sampled_from(["(hello) world", "tRNA-Ala; note", "  ", "single", "'quoted' text"])))
    sp = {"keys": keys, "case": draw(st.integers(0, 3)), "orders": orders}
    if note is not None:
        sp["note"] = note
    if draw(st.integers(0, 3)) == 0:
        # one key carries a single EMPTY value (/standard_name=""): it still is the value of that key
        sp["empty_value_at"] = draw(st.integers(0, len(keys) - 1))
    return sp


def check_name_id_random(spec, ctx):
    # orders are index permutations over keys (+note)
    keys = spec["keys"]
    n = len(keys) + (1 if "note" in spec else 0)
    spec = dict(spec)
    spec["orders"] = [[i for i in o if i < n] for o in spec["orders"]]
    check_name_id(spec, ctx)


def enum_note(tier, shard, nshards):
    i = 0
    for keys in ([], ["xid"], ["label2", "names"]):
        for note in ["(hello) world", "tRNA-Ala; note", "single", "...", "a.b c"]:
            i += 1
            if i % nshards == shard:
                yield {"keys": keys, "case": 0, "all_orders": True, "note": note}


# ------------------------------------------------------------------------------------ GFF3 gene rows: key priority on the parser side

GFF_SYMBOL_KEYS = ["gene_name", "gene_symbol", "gene", "Name"]     # documented order in io/gff3/parser._parse_genes
GFF_BIOTYPE_KEYS = ["gene_biotype", "gene_type"]
GFF_ID_KEYS = ["gene_id", "ID"]


def enum_gff3_gene_keys(tier, shard, nshards):
    """one file per shard; each file holds one gene per (subset of symbol keys in one ordering) x (biotype key order) x (gene_id before /
    after / absent): every ordering of every subset - the attribute order of a GFF3 row is arbitrary"""
    cases = []
    for k in range(0, len(GFF_SYMBOL_KEYS) + 1):
        for combo in itertools.combinations(GFF_SYMBOL_KEYS, k):
            for order in itertools.permutations(combo):
                for bio in ([], ["gene_biotype"], ["gene_type"], ["gene_biotype", "gene_type"], ["gene_type", "gene_biotype"]):
                    for gid in ("absent", "first", "last"):
                        cases.append({"symbol_keys": list(order), "biotype_keys": bio, "gene_id": gid})
    per = (len(cases) + nshards - 1) // nshards
    chunk = cases[shard * per:(shard + 1) * per]
    if chunk:
        yield {"cases": chunk}


def check_gff3_gene_keys(spec, ctx):
    import os
    import tempfile
    import warnings
    from inscripta.biocantor.io.gff3.parser import parse_standard_gff3
    lines = ["##gff-version 3"]
    exp = {}
    bios = {"gene_biotype": "lncRNA", "gene_type": "tRNA"}
    for i, c in enumerate(spec["cases"]):
        s0 = 100 + i * 100
        rid = "row%d" % i
        attrs = []
        sym_attrs = ["%s=sym_%s_%d" % (k, k.lower(), i) for k in c["symbol_keys"]]
        bio_attrs = ["%s=%s" % (k, bios[k]) for k in c["biotype_keys"]]
        gid_attr = "gene_id=gid%d" % i
        # GFF3 allows attributes in any order; ID is not required to come first
        body = sym_attrs + bio_attrs
        if c["gene_id"] == "first":
            attrs = [gid_attr] + body + ["ID=" + rid]
        elif c["gene_id"] == "last":
            attrs = ["ID=" + rid] + body + [gid_attr]
        else:
            attrs = body + ["ID=" + rid] if i % 2 else ["ID=" + rid] + body
        lines.append("\t".join(["chrG", "test", "gene", str(s0 + 1), str(s0 + 50), ".", "+", ".", ";".join(attrs)]))
        lines.append("\t".join(["chrG", "test", "mRNA", str(s0 + 1), str(s0 + 50), ".", "+", ".", "ID=tx%d;Parent=%s;transcript_id=tx%d" % (i, rid, i)]))
        lines.append("\t".join(["chrG", "test", "exon", str(s0 + 1), str(s0 + 50), ".", "+", ".", "ID=ex%d;Parent=tx%d" % (i, i)]))
        want_sym = next(("sym_%s_%d" % (k.lower(), i) for k in GFF_SYMBOL_KEYS if k in c["symbol_keys"]), None)
        want_bio = next((bios[k] for k in GFF_BIOTYPE_KEYS if k in c["biotype_keys"]), None)
        want_id = "gid%d" % i if c["gene_id"] != "absent" else rid
        exp[s0] = (want_sym, want_bio, want_id, c)
        if len(c["symbol_keys"]) >= 2 and c["symbol_keys"][0] != next(k for k in GFF_SYMBOL_KEYS if k in c["symbol_keys"]):
            ctx.label("lower_priority_key_written_first")
    fd, path = tempfile.mkstemp(suffix=".gff3", prefix="verif_c18_")
    try:
        with os.fdopen(fd, "w") as fh:
            fh.write("\n".join(lines) + "\n")
        with warnings.catch_warnings():
            warnings.simplefilter("ignore")
            recs = list(parse_standard_gff3(path))
    finally:
        os.remove(path)
    ctx.nt()
    if not ctx.eq("one_record", len(recs), 1):
        return
    genes = recs[0].annotation.to_annotation_collection().genes
    ctx.eq("gene_count", len(genes), len(exp))
    for g in genes:
        want = exp.get(g.start)
        if want is None:
            ctx.fail("unexpected_gene", g.start)
            continue
        ctx.eq("gff3_gene_symbol_by_priority", g.gene_symbol, want[0], extra=want[3])
        ctx.eq("gff3_gene_biotype_by_priority", g.gene_type.name if g.gene_type else None, want[1], extra=want[3])
        ctx.eq("gff3_gene_id_by_priority", g.gene_id, want[2], extra=want[3])


# ------------------------------------------------------------------------------------ types and merge

TYPE_KEYS = ["feature_class", "gbkey", "regulatory_type", "GBKEY", "Mobile_Element_Type", "my_class", "xgbkeyx", "ncRNA_class", "types"]
NON_TYPE = ["class", "type", "gb_key", "note", "gene", "feature_typ", "classes_"]


def is_type_key(k):
    lk = k.lower()
    return "_class" in lk or "gbkey" in lk or "_type" in lk


@st.composite
def strat_types(draw, tier="quick"):
    keys = draw(st.lists(st.sampled_from(TYPE_KEYS + NON_TYPE), min_size=0, max_size=6, unique=True))
    # (values that differ only in capitalisation - "promoter" / "Promoter", a case variant of the primary type - are different values)
    q = {k: draw(st.lists(st.sampled_from(["promoter", "enhancer", "CDS", "repeat", "x y", "", "Promoter", "cds", "Regulatory", "Misc_feature"]), min_size=1, max_size=3)) for k in keys}
    order = list(draw(st.permutations(keys)))
    a = draw(st.dictionaries(st.sampled_from(["note", "color", "k1", "k2", "db_xref"]), st.lists(st.sampled_from(["b", "a", "c", "A", "10", "9"]), min_size=1, max_size=4), max_size=4))
    b = draw(st.dictionaries(st.sampled_from(["note", "color", "k1", "k3", "db_xref"]), st.lists(st.sampled_from(["b", "a", "d", "A", "10", "9"]), min_size=1, max_size=4), max_size=4))
    return {"q": q, "order": order, "base": draw(st.sampled_from(["misc_feature", "regulatory"])), "a": a, "b": b}


def check_types_merge(spec, ctx):
    ctx.nt()
    q = {k: spec["q"][k] for k in spec["order"]}
    types = {spec["base"]}
    extract_feature_types(types, q)
    exp = {spec["base"]}
    for k, v in spec["q"].items():
        if is_type_key(k):
            exp.update(v)
            ctx.label("type_key_present")
    ctx.eq("feature_types", sorted(types), sorted(exp))
    if len({x.lower() for x in exp}) < len(exp):
        ctx.label("type_values_differing_in_case_only")
    # order independence
    types2 = {spec["base"]}
    extract_feature_types(types2, {k: spec["q"][k] for k in sorted(spec["q"])})
    ctx.eq("feature_types_order_independent", sorted(types2), sorted(types))
    # merge
    a, b = spec["a"], spec["b"]
    a0, b0 = json.dumps(a, sort_keys=True), json.dumps(b, sort_keys=True)
    m = merge_qualifiers(a, b)
    expm = {}
    for d in (a, b):
        for k, v in d.items():
            expm.setdefault(k, set()).update(v)
    ctx.eq("merge_union_sorted", {k: list(v) for k, v in m.items()}, {k: sorted(v) for k, v in expm.items()})
    ctx.eq("merge_commutes", merge_qualifiers(b, a), m)
    # the merged dictionary is the caller's: editing its value lists in place must not change what the next merge of the same
    # inputs returns
    want_again = {k: list(v) for k, v in m.items()}
    for v in m.values():
        if isinstance(v, list):
            v.append("zzz_edited_by_caller")
            v.reverse()
    ctx.eq("merge_again_after_caller_edited_the_result", {k: list(v) for k, v in merge_qualifiers(a, b).items()}, want_again)
    ctx.true("merge_leaves_operands", json.dumps(a, sort_keys=True) == a0 and json.dumps(b, sort_keys=True) == b0)
    if set(a) & set(b):
        ctx.label("shared_keys")
    # the same union through the intervals' own merge (export_qualifiers with a parent dictionary), for two SIBLINGS that are
    # handed the same parent mapping one after the other: each result is the key-wise union of the child's own export and the
    # parent's values, the second does not see the first, and the caller's mapping is left as it was
    from inscripta.biocantor.gene.feature import FeatureInterval
    from inscripta.biocantor.location.strand import Strand

    def feat(i):
        return FeatureInterval([2 + i], [9 + i], Strand.PLUS, qualifiers={k: list(v) for k, v in a.items()}, feature_id="fid%d" % i, feature_name="fname%d" % i)

    # the parent mapping also carries keys that the child adds on export
    parent = {k: set(v) for k, v in b.items()}
    parent.update({"feature_id": {"parent_fid"}, "feature_name": {"parent_fname"}})
    p0 = {k: set(v) for k, v in parent.items()}
    r1 = feat(1).export_qualifiers(parent)
    r2 = feat(2).export_qualifiers(parent)
    for i, r in ((1, r1), (2, r2)):
        own = feat(i).export_qualifiers()
        exp_r = {k: set(v) for k, v in own.items()}
        for k, v in p0.items():
            exp_r.setdefault(k, set()).update(v)
        ctx.eq("sibling_merge_is_union[%d]" % i, {k: sorted(v) for k, v in r.items()}, {k: sorted(v) for k, v in exp_r.items()})
    ctx.eq("sibling_merge_leaves_parent_mapping", {k: sorted(v) for k, v in parent.items()}, {k: sorted(v) for k, v in p0.items()})


# ------------------------------------------------------------------------------------ GenBank record permutations


def permute_genbank(text, perm_seed, all_perms_limit=6):
    """yield texts with the feature table permuted (Biopython reads and rewrites the record)"""
    rec = SeqIO.read(io.StringIO(text), "genbank")
    feats = list(rec.features)
    n = len(feats)
    if n <= all_perms_limit:
        perms = list(itertools.permutations(range(n)))
    else:
        perms = []
        idx = list(range(n))
        for r in range(24):
            k = (perm_seed * 7919 + r * 104729) % n
            idx = idx[k:] + idx[:k][::-1]
            if r % 2:
                idx = idx[::2] + idx[1::2]
            perms.append(tuple(idx))
    for p in perms:
        rec.features = [feats[i] for i in p]
        buf = io.StringIO()
        SeqIO.write([rec], buf, "genbank")
        yield p, buf.getvalue()


def canon_genes(coll):
    d = json.loads(json.dumps(coll.to_dict(), sort_keys=True, default=str))
    genes = d["genes"]
    for g in genes:
        g["transcripts"] = sorted(g["transcripts"], key=lambda t: json.dumps(t, sort_keys=True))
        # qualifier value order inside lists is not part of the model (sets)
    genes = sorted(genes, key=lambda g: json.dumps(g, sort_keys=True))
    for c in d["feature_collections"]:
        c["feature_intervals"] = sorted(c["feature_intervals"], key=lambda t: json.dumps(t, sort_keys=True))
    fcs = sorted(d["feature_collections"], key=lambda g: json.dumps(g, sort_keys=True))
    # the property is about genes; the name/id of a generic feature collection is taken from its first record by design
    return {"genes": genes}


def check_genbank_permutations(spec, ctx):
    ctx.nt("permuted_genbank")
    with warnings.catch_warnings():
        warnings.simplefilter("ignore")
        _, text = gb_export(spec, spec["flavor"], False)
        base = None
        count = 0
        for p, t in permute_genbank(text, spec["perm_seed"]):
            count += 1
            if count > spec.get("max_perms", 60):
                break
            recs = list(parse_genbank(io.StringIO(t), gbk_type=GenBankParserType.LOCUS_TAG))
            c = canon_genes(recs[0].to_annotation_collection())
            if count == 1 and any(g.get("locus_tag") in CONFUSABLE_TAGS for g in spec["obj"]["genes"]):
                ctx.label("confusable_locus_tags")
            if base is None:
                base = c
                # the unpermuted file must contain every source gene
                ctx.eq("genes_found", len(c["genes"]), len(spec["obj"]["genes"]))
                continue
            if c != base:
                ctx.fail("genbank_record_order_dependence", {"perm": list(p), "got_genes": len(c["genes"]), "base_genes": len(base["genes"]),
                                                             "got": json.dumps(c)[:400], "base": json.dumps(base)[:400]})
                break


def check_genbank_record_order(spec, ctx):
    """several records in one file, written in every order: what is parsed for each sequence is the same whatever the order of
    the records (the records reuse each other's locus tags; one of them may hold two genes with the same tag)"""
    ctx.nt("records_permuted")
    texts = []
    with warnings.catch_warnings():
        warnings.simplefilter("ignore")
        for k_, part in enumerate(spec["records"]):
            rec_spec = {"obj": json.loads(json.dumps(part["obj"])), "genome": part["genome"]}
            coll_, t_ = gb_export(rec_spec, spec["flavor"], False)
            t_ = t_.replace("chr1", "seq%d" % k_)
            if spec.get("strip_gene_rows") == k_:
                # a record whose features hang together through their locus tag only (no gene rows): the locus-tag grouping and the
                # positional grouping see it differently, so it shows which of the two the parser chose for this record
                rec = SeqIO.read(io.StringIO(t_), "genbank")
                rec.features = [f_ for f_ in rec.features if f_.type != "gene"]
                buf = io.StringIO()
                SeqIO.write([rec], buf, "genbank")
                t_ = buf.getvalue()
                ctx.label("record_without_gene_rows")
            texts.append(t_)
        base = None
        for perm in itertools.permutations(range(len(texts))):
            joined = "".join(texts[i] for i in perm)
            for mode in ("HYBRID", "LOCUS_TAG"):
                try:
                    recs = list(parse_genbank(io.StringIO(joined), gbk_type=GenBankParserType[mode]))
                    got = {r.annotation.sequence_name if hasattr(r, "annotation") else str(i): canon_genes(r.to_annotation_collection()) for i, r in enumerate(recs)}
                    got = {k: v for k, v in got.items()}
                except Exception as e:   # a refusal must not depend on the order either
                    got = {"EXC": type(e).__name__}
                if base is None:
                    base = {}
                if mode not in base:
                    base[mode] = got
                elif got != base[mode]:
                    ctx.fail("genbank_order_of_records_dependence[%s]" % mode, {"perm": list(perm), "got": json.dumps(got)[:300], "base": json.dumps(base[mode])[:300]})
                    return
    if any(len({g.get("locus_tag") for g in p_["obj"]["genes"]}) < len(p_["obj"]["genes"]) for p_ in spec["records"]):
        ctx.label("locus_tag_collision_on_one_record")


CONFUSABLE_TAGS = ["pXO_1", "pXO_01", "pXO_001", "pxo_1", "pXO_1a", "pXO_10", "pXO1"]


@st.composite
def strat_gb_record_order(draw, tier="quick"):
    n = draw(st.integers(2, 3))
    recs = []
    for k in range(n):
        r = draw(gb_one_record("", max_genes=3, isoforms=False))   # same tag scheme in every record: locus tags are reused across records
        for i, g in enumerate(r["obj"]["genes"]):
            g["locus_tag"] = "LT_%03d" % i
        if k == 0 and draw(st.booleans()):
            fam = draw(st.permutations(CONFUSABLE_TAGS))
            for i, g in enumerate(r["obj"]["genes"]):
                g["locus_tag"] = fam[i % len(fam)]
        r["obj"]["feature_collections"] = []
        recs.append({"obj": r["obj"], "genome": r["genome"]})
    if draw(st.booleans()):
        # on one record two genes share a locus tag
        k = draw(st.integers(0, n - 1))
        gs = recs[k]["obj"]["genes"]
        if len(gs) >= 2:
            gs[1]["locus_tag"] = gs[0]["locus_tag"]
    sp = {"records": recs, "flavor": draw(st.sampled_from(["PROKARYOTIC", "EUKARYOTIC"]))}
    if draw(st.booleans()):
        k2 = draw(st.integers(0, n - 1))
        sp["strip_gene_rows"] = k2
        gs2 = recs[k2]["obj"]["genes"]
        if len(gs2) >= 2 and draw(st.booleans()):
            gs2[1]["locus_tag"] = gs2[0]["locus_tag"]     # two features of that record share a tag
    return sp


@st.composite
def strat_gb_perm(draw, tier="quick"):
    sp = draw(gb_one_record("", isoforms=False))   # one record, one gene model per gene (what the LOCUS_TAG grouping is specified for)
    # locus-tag-complete: every gene carries its own locus tag
    confusable = draw(st.booleans())
    fam = draw(st.permutations(CONFUSABLE_TAGS))
    for i, g in enumerate(sp["obj"]["genes"]):
        # half of the cases: distinct tags that tie under a sloppy comparison (leading zeros, case, prefix)
        g["locus_tag"] = fam[i] if confusable and i < len(fam) else "LT_%03d" % i
    sp["flavor"] = draw(st.sampled_from(["PROKARYOTIC", "EUKARYOTIC"]))
    sp["perm_seed"] = draw(st.integers(0, 1000))
    sp["max_perms"] = 24 if tier == "quick" else 120
    return sp


# ------------------------------------------------------------------------------------ merged qualifiers of parsed feature collections

MERGE_KEYS = ["note", "function", "experiment", "bound_moiety", "inference", "standard_name"]
FEATURE_TYPES = ["misc_feature", "misc_binding", "regulatory", "protein_bind", "repeat_region"]


def check_genbank_feature_merge(spec, ctx):
    """non-gene features sharing a locus tag are parsed into one feature collection: its qualifiers are the key-wise sorted set
    union of its members' qualifiers (as Biopython delivers them), each member keeps exactly its own"""
    from Bio.Seq import Seq
    from Bio.SeqFeature import SeqFeature, SimpleLocation
    from Bio.SeqRecord import SeqRecord
    rec = SeqRecord(Seq("ACGT" * 60), id="chrT", name="chrT", description="x")
    rec.annotations["molecule_type"] = "DNA"
    for f in spec["features"]:
        q = {k: list(v) for k, v in f["qualifiers"].items()}
        q["locus_tag"] = [f["tag"]]
        rec.features.append(SeqFeature(SimpleLocation(f["start"], f["end"], strand=1 if f["strand"] == "+" else -1), type=f["type"], qualifiers=q))
    buf = io.StringIO()
    SeqIO.write([rec], buf, "genbank")
    text = buf.getvalue()
    raw = [{k: list(v) for k, v in f.qualifiers.items()} for f in next(SeqIO.parse(io.StringIO(text), "genbank")).features]
    if len(raw) != len(spec["features"]):
        return
    groups = {}
    for f, q in zip(spec["features"], raw):
        groups.setdefault(q["locus_tag"][0], []).append((f, q))
    if any(len(v) >= 2 for v in groups.values()):
        ctx.nt("features_sharing_a_locus_tag")
    if any(len({x.strip() for x in vs}) < len(set(vs)) for q in raw for vs in q.values()) or any(
            len({x.strip() for q in [m[1] for m in ms] for x in q.get(k, [])}) < len({x for q in [m[1] for m in ms] for x in q.get(k, [])}) for ms in groups.values() for k in MERGE_KEYS):
        ctx.label("values_differing_by_surrounding_blanks")
    with warnings.catch_warnings():
        warnings.simplefilter("ignore")
        try:
            parsed = list(parse_genbank(io.StringIO(text)))
        except Exception as e:
            ctx.fail("feature_merge_parse_raises", repr(e)[:120])
            return
    colls = {}
    for c in parsed[0].annotation.feature_collections:
        colls.setdefault(c.locus_tag, []).append(c)
    if not ctx.eq("one_collection_per_locus_tag", {k: len(v) for k, v in colls.items()}, {k: 1 for k in groups}):
        return
    for tag, ms in groups.items():
        c = colls[tag][0]
        exp = {}
        for _, q in ms:
            for k, vs in q.items():
                exp.setdefault(k, set()).update(vs)
        got = {k: list(v) for k, v in (c.qualifiers or {}).items()}
        ctx.eq("merged_qualifiers_are_the_sorted_union", got, {k: sorted(v) for k, v in exp.items()}, extra=tag)
        members = sorted(c.feature_intervals, key=lambda m: (m.interval_starts[0], m.interval_ends[-1]))
        want = sorted(ms, key=lambda m: (m[0]["start"], m[0]["end"]))
        if ctx.eq("members_of_collection", len(members), len(want), extra=tag):
            for m, (_, q) in zip(members, want):
                ctx.eq("member_keeps_its_own_qualifiers", {k: sorted(v) for k, v in (m.qualifiers or {}).items()}, {k: sorted(set(v)) for k, v in q.items()}, extra=tag)


@st.composite
def strat_gb_feature_merge(draw, tier="quick"):
    n = draw(st.integers(2, 5))
    tags = draw(st.lists(st.sampled_from(["LT_7", "LT_8", "LT_07", "lt_7", "LT_70"]), min_size=1, max_size=3, unique=True))
    words = draw(st.lists(st.text(alphabet="abcdefgh XYZ019_-", min_size=1, max_size=7).filter(lambda w: w.strip() and "  " not in w), min_size=2, max_size=5, unique=True))
    pool = []
    for w in words:
        w = w.strip()
        pool += [w, w + " ", " " + w, w.upper(), w + "x"]
    feats, pos = [], 3
    for i in range(n):
        L = draw(st.integers(3, 20))
        q = {}
        for k in draw(st.lists(st.sampled_from(MERGE_KEYS), min_size=1, max_size=3, unique=True)):
            q[k] = draw(st.lists(st.sampled_from(pool), min_size=1, max_size=3, unique=True))
        feats.append({"start": pos, "end": pos + L, "strand": draw(st.sampled_from("+-")), "type": draw(st.sampled_from(FEATURE_TYPES)), "tag": draw(st.sampled_from(tags)), "qualifiers": q})
        pos += L + draw(st.integers(1, 8))
    # the records of one locus tag are contiguous in the file (generic features are grouped as they come; only genes are claimed
    # to be independent of the order of records)
    feats.sort(key=lambda f: tags.index(f["tag"]))
    return {"features": feats}


def pred_rank0(spec, clause, detail):
    """a rank-0 key (feature_name / feature_id) is present together with a lower-priority key of the same family and does not come last among them"""
    keys = [k.lower() for k in spec.get("keys", [])]
    return ("feature_name" in keys and any(k in NAME_RANK and k != "feature_name" for k in keys)) or \
           ("feature_id" in keys and "id" in keys)


PROP = Prop(
    pid="C18",
    legs=[
        Leg("name_id_exhaustive", check_name_id, enumerate=enum_subsets, exhaustive=True, shards_quick=16, shards_thorough=16,
            must_hit=["rank0_first", "rank0_middle", "rank0_last", "lookalike_present", "mixed_case"],
            rule="all subsets of size <=4 (quick) / <=5 (thorough) of the 9 recognised keys + 9 look-alike keys, each in ALL orderings, keys in 4 letter-case patterns (size<=3)"),
        Leg("name_id_random", check_name_id_random, strategy=strat_name_id, n_quick=400, n_thorough=5000,
            rule="subsets of size 5..9 in 8 random orderings each, with and without a /note"),
        Leg("gff3_gene_keys", check_gff3_gene_keys, enumerate=enum_gff3_gene_keys, exhaustive=True, shards_quick=4, shards_thorough=4, must_hit=["lower_priority_key_written_first"],
            rule="GFF3 gene rows carrying every subset of the symbol keys (gene_name > gene_symbol > gene > Name) in every attribute order x every order of the biotype keys (gene_biotype > gene_type) x gene_id written before / after ID or absent, parsed by parse_standard_gff3: symbol, biotype and id must follow the documented priority whatever the attribute order"),
        Leg("note_fallback", check_name_id, enumerate=enum_note, exhaustive=True, shards_quick=1, shards_thorough=1, must_hit=["note_fallback"],
            rule="no recognised key present: name and id fall back to the first word of /note"),
        Leg("types_merge", check_types_merge, strategy=strat_types, n_quick=1500, n_thorough=15000, must_hit=["type_key_present", "shared_keys", "type_values_differing_in_case_only"],
            rule="type-like qualifier keys (*_class, gbkey, *_type; mixed case; substrings) and near misses; pairs of qualifier dictionaries for merge_qualifiers"),
        Leg("genbank_feature_merge", check_genbank_feature_merge, strategy=strat_gb_feature_merge, n_quick=150, n_thorough=2000, shards_quick=4,
            must_hit=["features_sharing_a_locus_tag", "values_differing_by_surrounding_blanks"],
            rule="GenBank records (written with Biopython) of 2..5 non-gene features carrying 1..3 confusable locus tags and 1..3 qualifier keys with values from a pool of near-duplicates (surrounding blanks, case, suffix): parsed feature collections' qualifiers vs the key-wise sorted set union of what Biopython delivers for the members"),
        Leg("genbank_record_order", check_genbank_record_order, strategy=strat_gb_record_order, n_quick=15, n_thorough=200, shards_quick=8,
            must_hit=["locus_tag_collision_on_one_record", "record_without_gene_rows"],
            rule="2..3 GenBank records that reuse each other's locus tags (one of them possibly holding two genes with one tag), concatenated in every order and parsed in HYBRID and LOCUS_TAG mode: the genes parsed for each sequence (or the refusal) must not depend on the order of the records"),
        Leg("genbank_permutations", check_genbank_permutations, strategy=strat_gb_perm, n_quick=25, n_thorough=300, shards_quick=8,
            must_hit=["permuted_genbank"],
            rule="locus-tag-complete GenBank records (C12 generator) with the feature table permuted (all permutations for <=6 features, 24 pseudo-random ones beyond), parsed in LOCUS_TAG mode"),
    ],
    rule="Oracle: documented priority ranks (smallest rank wins, exact case-insensitive match), union of type-like values, key-wise set union; "
         "metamorphic: any reordering gives the same result. Non-trivial: >=2 recognised keys present.",
    assumptions=["keys in one qualifier dictionary differ case-insensitively (two spellings of the same key have the same rank; the property does not order them)"],
    predicates={"rank0": pred_rank0},
)
