"""C19 — invalid input is refused with documented errors; nothing ill-formed is built; public operations on valid
objects never fail with an internal error."""
import copy
import io
import json
import warnings

from hypothesis import strategies as st

import harness.compat  # noqa: F401
from harness import refmodel as rm
from harness import strategies as S
from harness.build import (mkloc_blocks, mktx, mkfeat, mkcds, mkgene, mkfc, mkvar, mkvc, mkcollection, chrom_parent, chunk_parent, STRAND)
from harness.core import Leg, Prop
from inscripta.biocantor import DistanceType
from inscripta.biocantor.exc import BioCantorException
from inscripta.biocantor.gene.cds import CDSInterval
from inscripta.biocantor.gene.cds_frame import CDSFrame, CDSPhase
from inscripta.biocantor.gene.codon import Codon, TranslationTable
from inscripta.biocantor.gene.collections import AnnotationCollection
from inscripta.biocantor.gene.feature import FeatureInterval, FeatureIntervalCollection
from inscripta.biocantor.gene.gene import GeneInterval
from inscripta.biocantor.gene.transcript import TranscriptInterval
from inscripta.biocantor.gene.variants import VariantInterval, VariantIntervalCollection
from inscripta.biocantor.io.exc import InvalidInputError
from inscripta.biocantor.io.models import ParentModel
from inscripta.biocantor.location.location_impl import SingleInterval, CompoundInterval, EmptyLocation
from inscripta.biocantor.location.strand import Strand
from inscripta.biocantor.location.location import Location
from inscripta.biocantor.parent import Parent
from inscripta.biocantor.sequence import Sequence
from inscripta.biocantor.sequence.alphabet import Alphabet

INTERNAL = (AttributeError, IndexError, KeyError, RecursionError, UnboundLocalError, NameError, ZeroDivisionError, StopIteration)
DOCUMENTED = (BioCantorException, ValueError, NotImplementedError)


class Outcome:
    def __init__(self, kind, value=None, exc=None):
        self.kind, self.value, self.exc = kind, value, exc


def attempt(ctx, label, thunk):
    """run thunk; classify the outcome.  Internal errors are violations."""
    try:
        with warnings.catch_warnings():
            warnings.simplefilter("ignore")
            v = thunk()
            if hasattr(v, "__next__"):
                v = list(v)
        return Outcome("value", v)
    except DOCUMENTED as e:
        ctx.refuse("refused")
        return Outcome("refused", exc=e)
    except TypeError as e:
        import re as _re
        if _re.search(r"unexpected keyword argument|positional argument|missing \d+ required", str(e)):
            # a call-signature mismatch inside the library is an internal error, not a documented refusal
            ctx.fail("internal_error:%s:TypeError(signature)" % label, repr(e)[:150])
            return Outcome("internal", exc=e)
        # recorded, not raised as a violation (could be a documented type error)
        ctx.label("typeerror_on_valid_types")
        ctx.notes.append(label)
        return Outcome("typeerror", exc=e)
    except RuntimeError as e:
        if "generator raised StopIteration" in str(e):
            ctx.fail("internal_error:%s:StopIteration" % label, repr(e)[:120])
            return Outcome("internal", exc=e)
        return Outcome("other", exc=e)
    except INTERNAL as e:
        import traceback
        tb = traceback.extract_tb(e.__traceback__)
        where = next(("%s:%s" % (f.filename.split("/inscripta/biocantor/")[1], f.name) for f in reversed(tb) if "/inscripta/biocantor/" in f.filename), "?")
        ctx.fail("internal_error:%s:%s" % (label, type(e).__name__), {"exc": repr(e)[:120], "where": where})
        return Outcome("internal", exc=e)
    except Exception as e:
        ctx.label("other_exception:" + type(e).__name__)
        return Outcome("other", exc=e)


# ------------------------------------------------------------------------------------ validators


def valid_location(loc, parent_len=None):
    """None if well-formed else a reason string"""
    if type(loc).__name__ == "_EmptyLocation":
        return None if loc is EmptyLocation() else "second EmptyLocation instance"
    try:
        bl = [(b.start, b.end) for b in loc.blocks]
    except Exception as e:
        return "blocks raise %r" % e
    if not bl:
        return "no blocks"
    if any(not (0 <= s <= e) for s, e in bl):
        return "block outside 0<=start<=end: %s" % bl
    if [s for s, _ in bl] != sorted(s for s, _ in bl):
        return "blocks not sorted: %s" % bl
    if len(loc) != sum(e - s for s, e in bl):
        return "length %d != sum of blocks %s" % (len(loc), bl)
    if loc.start != min(s for s, _ in bl) or loc.end != max(e for _, e in bl):
        return "start/end %d-%d do not match blocks %s" % (loc.start, loc.end, bl)
    if loc.strand not in (Strand.PLUS, Strand.MINUS, Strand.UNSTRANDED):
        return "strand %r" % loc.strand
    if parent_len is not None and max(e for _, e in bl) > parent_len:
        return "beyond parent sequence (%d): %s" % (parent_len, bl)
    if loc.parent is not None and loc.parent.sequence is not None and max(e for _, e in bl) > len(loc.parent.sequence):
        return "beyond own parent sequence: %s" % bl
    return None


def valid_interval(obj):
    """structural invariants of features / transcripts / CDS / genes / collections"""
    try:
        if isinstance(obj, (TranscriptInterval, FeatureInterval, CDSInterval, VariantInterval)):
            starts, ends = list(obj._genomic_starts), list(obj._genomic_ends)
            if len(starts) != len(ends) or not starts:
                return "starts/ends lengths %d/%d" % (len(starts), len(ends))
            if any(not (0 <= s <= e) for s, e in zip(starts, ends)):
                return "block outside 0<=start<=end: %s %s" % (starts, ends)
            if starts != sorted(starts):
                return "starts not ascending %s" % starts
            if obj.start != starts[0] or obj.end != max(ends):
                return "start/end %s-%s vs blocks %s %s" % (obj.start, obj.end, starts, ends)
            r = valid_location(obj.chromosome_location)
            if r:
                return "chromosome_location: " + r
            crl = obj.chunk_relative_location
            r = valid_location(crl)
            if r:
                return "chunk_relative_location: " + r
        if isinstance(obj, CDSInterval):
            if len(obj.frames) != len(obj._genomic_starts):
                return "frames length %d vs %d blocks" % (len(obj.frames), len(obj._genomic_starts))
            if any(not isinstance(f, CDSFrame) for f in obj.frames):
                return "frames contain non-frame %s" % obj.frames
            if len(obj) == 0:
                return "empty CDS"
        if isinstance(obj, TranscriptInterval) and obj.cds is not None:
            r = valid_interval(obj.cds)
            if r:
                return "cds: " + r
            ex = rm.posset(list(zip(obj._genomic_starts, obj._genomic_ends)))
            cd = rm.posset(list(zip(obj.cds._genomic_starts, obj.cds._genomic_ends)))
            if not cd <= ex:
                return "CDS positions outside exons: %s" % sorted(cd - ex)[:5]
        if isinstance(obj, (GeneInterval, FeatureIntervalCollection, VariantIntervalCollection)):
            kids = list(obj.iter_children())
            if not kids:
                return "empty collection"
            if obj.start != min(k.start for k in kids) or obj.end != max(k.end for k in kids):
                return "span %s-%s vs children" % (obj.start, obj.end)
            guids = [k.guid for k in kids]
            if len(set(guids)) != len(guids):
                return "duplicate children"
            for k in kids:
                r = valid_interval(k)
                if r:
                    return "child: " + r
        if isinstance(obj, VariantIntervalCollection):
            vs = sorted((v.start, v.end) for v in obj.variant_intervals)
            if any(vs[i][1] > vs[i + 1][0] for i in range(len(vs) - 1)):
                return "overlapping variants %s" % vs
        if isinstance(obj, AnnotationCollection):
            kids = list(obj.iter_children())
            if [k.start for k in kids] != sorted(k.start for k in kids):
                return "children not sorted"
            if not obj.is_empty or kids:
                if obj.start > obj.end:
                    return "start %s > end %s" % (obj.start, obj.end)
    except INTERNAL as e:
        return "validator hit internal error %r" % e
    except DOCUMENTED:
        return None
    return None


def outside_chunk(obj):
    """a position query documents that it refuses to leave the associated sequence chunk: its result never claims bounds
    outside the chunk it carries (identifier queries are documented to keep whole members and clamp the sequence instead)"""
    try:
        par = obj.chunk_relative_location.parent if not obj.chunk_relative_location.is_empty else None
        if par is not None and par.sequence is not None and par.has_ancestor_of_type("sequence_chunk") and par.sequence.parent is not None:
            chunk_loc = par.sequence.location_on_parent
            if obj.start < chunk_loc.start or obj.end > chunk_loc.end:
                return "bounds %s-%s outside the sequence chunk %s-%s" % (obj.start, obj.end, chunk_loc.start, chunk_loc.end)
    except DOCUMENTED:
        return None
    return None


def expect_refusal(ctx, label, thunk, validator=None):
    """corrupted input: must raise a documented exception, or (if accepted) the result must pass the validator"""
    out = attempt(ctx, label, thunk)
    ctx.label("corruption:" + label)
    if out.kind == "value":
        r = validator(out.value) if validator else "accepted"
        if r:
            ctx.fail("accepted_ill_formed:" + label, r)
        else:
            ctx.label("corruption_benign", "benign:" + label)
    elif out.kind == "refused":
        # the same inconsistent data offered again must be refused again: a refusal that leaves something behind (a registered
        # half-built singleton, a cache entry made before validation) would let the second request through
        again = attempt(ctx, label + "(repeat)", thunk)
        if again.kind == "value":
            r = validator(again.value) if validator else "accepted"
            if r:
                ctx.fail("refused_once_then_accepted:" + label, {"first": repr(out.exc)[:80], "second": repr(again.value)[:80], "why": r})
        ctx.label("refusal_repeated")
    return out


# ------------------------------------------------------------------------------------ corruption leg


def check_corruptions(spec, ctx):
    ctx.nt()
    g = spec["genome"]
    n = len(g)
    P = chrom_parent(g)
    PS = Parent(id="seqp", sequence=Sequence(g, Alphabet.NT_STRICT, id="seqp"))
    a, b = spec["a"], spec["b"]  # a valid interval 0 <= a < b <= n
    t = spec["tx"]
    f = spec["feat"]
    # --- locations
    expect_refusal(ctx, "SingleInterval:start>end", lambda: SingleInterval(b, a, Strand.PLUS), valid_location)
    expect_refusal(ctx, "SingleInterval:negative", lambda: SingleInterval(-1 - a, b, Strand.PLUS), valid_location)
    expect_refusal(ctx, "SingleInterval:beyond_sequence", lambda: SingleInterval(a, n + 1 + b, Strand.PLUS, PS), valid_location)
    # ... a zero-length location is a location too: beyond the end of the sequence it is refused like any other (at the very end it
    # is inside), and so is a parent given such a placement
    expect_refusal(ctx, "SingleInterval:zero_length_beyond_sequence", lambda: SingleInterval(n + 1 + b, n + 1 + b, Strand.PLUS, PS), lambda x: "zero-length location %s accepted on a sequence of %d" % (x, n))
    expect_refusal(ctx, "CompoundInterval:zero_length_blocks_beyond_sequence", lambda: CompoundInterval([n + 2, n + 5], [n + 2, n + 5], Strand.MINUS, PS), lambda x: "accepted %s" % x)
    expect_refusal(ctx, "Parent:zero_length_location_beyond_sequence", lambda: Parent(sequence=Sequence(g, Alphabet.NT_STRICT), location=SingleInterval(n + 3, n + 3, Strand.PLUS)), lambda x: "accepted")
    attempt(ctx, "SingleInterval:zero_length_at_the_very_end", lambda: SingleInterval(n, n, Strand.PLUS, PS))
    expect_refusal(ctx, "CompoundInterval:unequal_lengths", lambda: CompoundInterval([a, b], [b], Strand.PLUS), valid_location)
    expect_refusal(ctx, "CompoundInterval:empty_lists", lambda: CompoundInterval([], [], Strand.PLUS), valid_location)
    expect_refusal(ctx, "CompoundInterval:start>end", lambda: CompoundInterval([a, b + 2], [b, b + 1], Strand.MINUS), valid_location)
    expect_refusal(ctx, "CompoundInterval:negative", lambda: CompoundInterval([-2 - a, b + 1], [b, b + 3], Strand.PLUS), valid_location)
    expect_refusal(ctx, "CompoundInterval:beyond_sequence", lambda: CompoundInterval([a, n + 2], [b, n + 5], Strand.PLUS, PS), valid_location)
    expect_refusal(ctx, "from_single_intervals:empty", lambda: CompoundInterval.from_single_intervals([]), valid_location)
    expect_refusal(ctx, "from_single_intervals:mixed_strands",
                   lambda: CompoundInterval.from_single_intervals([SingleInterval(a, b, Strand.PLUS), SingleInterval(b + 1, b + 2, Strand.MINUS)]), lambda x: "mixed strands accepted")
    expect_refusal(ctx, "from_single_intervals:mixed_parents",
                   lambda: CompoundInterval.from_single_intervals([SingleInterval(a, b, Strand.PLUS, Parent(id="x")), SingleInterval(b + 1, b + 2, Strand.PLUS, Parent(id="y"))]),
                   lambda x: "mixed parents accepted")
    # --- parents / sequences
    expect_refusal(ctx, "Parent:strand_mismatch", lambda: Parent(strand=Strand.MINUS, location=SingleInterval(a, b, Strand.PLUS)), lambda x: "accepted")
    expect_refusal(ctx, "Parent:location_beyond_sequence", lambda: Parent(sequence=Sequence(g, Alphabet.NT_STRICT), location=SingleInterval(a, n + 3, Strand.PLUS)), lambda x: "accepted")
    expect_refusal(ctx, "Parent:conflicting_ids", lambda: Parent(id="p1", sequence=Sequence(g, Alphabet.NT_STRICT, id="p2")), lambda x: "accepted")
    expect_refusal(ctx, "Parent:longer_than_its_parent", lambda: Parent(sequence=Sequence(g + "AA", Alphabet.NT_STRICT), parent=Parent(sequence=Sequence(g, Alphabet.NT_STRICT))), lambda x: "accepted")
    expect_refusal(ctx, "Sequence:wrong_alphabet", lambda: Sequence(g + "Z!", Alphabet.NT_STRICT), lambda x: "accepted")
    # one foreign character (white space, control character, digit, punctuation, a letter of another alphabet) at the start, in the
    # middle or at the very end of otherwise valid data, for several alphabets
    for where, ch, alpha in spec.get("bad_chars") or [["end", "\n", "NT_STRICT"], ["start", " ", "NT_EXTENDED"], ["middle", "J", "NT_EXTENDED_GAPPED"]]:
        data = {"start": ch + g, "middle": g[: n // 2] + ch + g[n // 2:], "end": g + ch}[where]
        expect_refusal(ctx, "Sequence:foreign_character_at_" + where, lambda data=data, alpha=alpha: Sequence(data, Alphabet[alpha]), lambda x: "accepted %r" % str(x)[-6:])
        expect_refusal(ctx, "Sequence.validate_alphabet:foreign_character_at_" + where, lambda data=data, alpha=alpha: Sequence.validate_alphabet(data, Alphabet[alpha]) or "validated", lambda x: "accepted")
    expect_refusal(ctx, "Sequence:parent_location_length", lambda: Sequence(g, Alphabet.NT_STRICT, parent=Parent(location=SingleInterval(0, n + 1, Strand.PLUS))), lambda x: "accepted")
    expect_refusal(ctx, "Sequence:revcomp_protein", lambda: Sequence("MKV", Alphabet.AA).reverse_complement(), lambda x: "accepted")
    # --- codons (value objects kept in a process-wide registry)
    def bad_codon(c):
        v = str(c)
        return None if (len(v) == 3 and all(ch in "ATUCGNWSMKRYBDHV" for ch in v.upper())) else "ill-formed codon %r" % v
    for bad in spec.get("bad_codons") or ["AC", "ACGT", "AC-", "A?G", ""]:
        expect_refusal(ctx, "Codon:" + ("wrong_length" if len(bad) != 3 else "not_a_nucleotide_triplet"), lambda bad=bad: Codon(bad), bad_codon)
    # --- transcripts
    ex = t["exons"]
    starts, ends = [x[0] for x in ex], [x[1] for x in ex]
    S_ = STRAND[t["strand"]]
    expect_refusal(ctx, "TranscriptInterval:unequal_exon_lists", lambda: TranscriptInterval(starts + [ends[-1] + 2], ends, S_), valid_interval)
    expect_refusal(ctx, "TranscriptInterval:start>end", lambda: TranscriptInterval([ends[0]] + starts[1:], [starts[0]] + ends[1:], S_) if ends[0] != starts[0] else (_ for _ in ()).throw(ValueError("n/a")), valid_interval)
    expect_refusal(ctx, "TranscriptInterval:negative", lambda: TranscriptInterval([-3] + starts[1:], ends, S_), valid_interval)
    expect_refusal(ctx, "TranscriptInterval:beyond_sequence", lambda: TranscriptInterval(starts, ends[:-1] + [n + 4], S_, parent_or_seq_chunk_parent=P), valid_interval)
    expect_refusal(ctx, "TranscriptInterval:unstranded", lambda: TranscriptInterval(starts, ends, Strand.UNSTRANDED), valid_interval)
    if "cds" in t:
        cs_, ce_ = [x[0] for x in t["cds"]], [x[1] for x in t["cds"]]
        fr = [CDSFrame(x) for x in t["frames"]]
        expect_refusal(ctx, "TranscriptInterval:cds_before_exons", lambda: TranscriptInterval([s + 5 for s in starts], [e + 5 for e in ends], S_, [starts[0]] + [c + 5 for c in cs_[1:]], [c + 5 for c in ce_], fr), valid_interval)
        expect_refusal(ctx, "TranscriptInterval:cds_after_exons", lambda: TranscriptInterval(starts, ends, S_, cs_, ce_[:-1] + [ends[-1] + 3], fr), valid_interval)
        if len(ex) > 1 and ex[1][0] - ex[0][1] >= 1:
            # a CDS block reaching into an intron
            expect_refusal(ctx, "TranscriptInterval:cds_in_intron", lambda: TranscriptInterval(starts, ends, S_, [ex[0][0]], [ex[0][1] + 1], [CDSFrame.ZERO]), valid_interval)
            ctx.label("cds_in_intron_tried")
        expect_refusal(ctx, "TranscriptInterval:cds_starts_without_ends", lambda: TranscriptInterval(starts, ends, S_, cs_, None, fr), valid_interval)
        expect_refusal(ctx, "TranscriptInterval:cds_without_frames", lambda: TranscriptInterval(starts, ends, S_, cs_, ce_, None), valid_interval)
        expect_refusal(ctx, "TranscriptInterval:frames_length", lambda: TranscriptInterval(starts, ends, S_, cs_, ce_, fr + [CDSFrame.ZERO]), valid_interval)
        expect_refusal(ctx, "TranscriptInterval:unequal_cds_lists", lambda: TranscriptInterval(starts, ends, S_, cs_, ce_ + [ce_[-1]], fr), valid_interval)
        expect_refusal(ctx, "CDSInterval:frames_length", lambda: CDSInterval(cs_, ce_, S_, fr[:-1]), valid_interval)
        expect_refusal(ctx, "CDSInterval:mixed_frame_phase", lambda: CDSInterval(cs_ + [ce_[-1] + 2], ce_ + [ce_[-1] + 4], S_, fr + [CDSPhase.ZERO]), valid_interval)
        expect_refusal(ctx, "CDSInterval:empty", lambda: CDSInterval([cs_[0]], [cs_[0]], S_, [CDSFrame.ZERO]), valid_interval)
        # frames follow the blocks 5'->3': a location of several blocks without direction has no frames (one block has: its own)
        if len(cs_) >= 2:
            expect_refusal(ctx, "construct_frames_from_location:several_blocks_without_direction",
                           lambda: CDSInterval.construct_frames_from_location(CompoundInterval(cs_, ce_, Strand.UNSTRANDED), CDSFrame.ONE), lambda x: "answered %r" % (x,))
        # the refusals above leave nothing behind: a valid CDS annotated with GFF3 phases is accepted afterwards (twice) and
        # holds exactly its own frames, one per block
        for again in (0, 1):
            try:
                ctl = CDSInterval(cs_, ce_, S_, [CDSPhase({0: 0, 1: 2, 2: 1}[x]) for x in t["frames"]])
                ctx.eq("CDSInterval:valid_phases_after_refusals:frames", [f_.value for f_ in ctl.frames], list(t["frames"]), extra=again)
            except Exception as e:
                ctx.fail("CDSInterval:valid_phases_refused_after_refusals", repr(e)[:120])
        expect_refusal(ctx, "CDSInterval:unequal_lists", lambda: CDSInterval(cs_, ce_ + [ce_[-1] + 1], S_, fr), valid_interval)
    # --- a CDS holding a codon that is not a strict codon: the lenient translation answers, the strict one refuses (documented
    # ValueError) - on a fresh object and on the object the lenient translation was asked of just before
    amb = spec.get("ambiguous_cds") or {"genome": "ATGGNNTTTTAA", "at": 4}
    ag = amb["genome"]
    def amb_cds():
        return CDSInterval([0], [len(ag) - len(ag) % 3], Strand.PLUS, [CDSFrame.ZERO], parent_or_seq_chunk_parent=chrom_parent(ag))
    c_len = amb_cds()
    attempt(ctx, "CDSInterval.translate(strict=False)", lambda: c_len.translate(strict=False))
    expect_refusal(ctx, "CDSInterval.translate:strict_after_lenient_on_the_same_object", lambda: c_len.translate(strict=True), lambda x: "strict translation answered %r" % str(x))
    expect_refusal(ctx, "CDSInterval.translate:strict_on_a_fresh_object", lambda: amb_cds().translate(strict=True), lambda x: "strict translation answered %r" % str(x))
    c2 = amb_cds()
    attempt(ctx, "CDSInterval.translate(strict=False, truncate)", lambda: c2.translate(strict=False, truncate_at_in_frame_stop=True))
    expect_refusal(ctx, "CDSInterval.has_in_frame_stop:after_lenient_translation", lambda: c2.has_in_frame_stop, lambda x: None if isinstance(x, bool) else "not a bool")
    # --- features
    fb = f["blocks"]
    expect_refusal(ctx, "FeatureInterval:unequal_lists", lambda: FeatureInterval([x[0] for x in fb], [x[1] for x in fb] + [99], STRAND[f["strand"]]), valid_interval)
    expect_refusal(ctx, "FeatureInterval:start>end", lambda: FeatureInterval([fb[0][1] + 1], [fb[0][0]], STRAND[f["strand"]]), valid_interval)
    expect_refusal(ctx, "FeatureInterval:qualifiers_not_dict", lambda: FeatureInterval([fb[0][0]], [fb[0][1]], Strand.PLUS, qualifiers=["a"]), lambda x: "accepted")
    expect_refusal(ctx, "FeatureInterval:qualifier_values_not_list", lambda: FeatureInterval([fb[0][0]], [fb[0][1]], Strand.PLUS, qualifiers={"a": "b"}), lambda x: "accepted")
    # --- a sequence chunk without a direction on its chromosome: positions on it cannot be related to chromosome positions, so an
    # interval cannot be placed on it - refused, never answered with an interval that has silently lost its bases
    from inscripta.biocantor.io.parser import seq_chunk_to_parent as _sc2p

    def _on_undirected_chunk(cls, starts_, ends_, strand_, **kw):
        x = cls(starts_, ends_, strand_, parent_or_seq_chunk_parent=_sc2p(g, "chr1", 0, n, strand=Strand.UNSTRANDED), **kw)
        return x

    def _lost_bases(x):
        crl = x.chunk_relative_location
        return "interval accepted on an undirected chunk with an empty chunk-relative location" if crl.is_empty else (valid_interval(x))
    expect_refusal(ctx, "FeatureInterval:chunk_without_direction", lambda: _on_undirected_chunk(FeatureInterval, [x[0] for x in fb], [x[1] for x in fb], STRAND[f["strand"]]), _lost_bases)
    expect_refusal(ctx, "TranscriptInterval:chunk_without_direction", lambda: _on_undirected_chunk(TranscriptInterval, starts, ends, S_), _lost_bases)
    # --- collections
    tx_ok = mktx(t)
    expect_refusal(ctx, "GeneInterval:empty", lambda: GeneInterval([]), valid_interval)
    expect_refusal(ctx, "GeneInterval:duplicate_children", lambda: GeneInterval([mktx(t), mktx(t)]), valid_interval)
    # the same content with its qualifiers written down in another order (keys and values) is the same child
    def _requal(d_):
        q_ = d_.get("qualifiers") or {}
        return dict(d_, qualifiers={k_: list(reversed(q_[k_])) for k_ in reversed(list(q_))})
    if len(t.get("qualifiers") or {}) >= 2 or any(len(v_) >= 2 for v_ in (t.get("qualifiers") or {}).values()):
        expect_refusal(ctx, "GeneInterval:duplicate_children_qualifiers_in_another_order", lambda: GeneInterval([mktx(t), mktx(_requal(t))]), lambda x: "two children of the same content accepted")
    # two DIFFERENT children that carry the same identifier (caller-supplied GUIDs that collide): one of them would become unreachable
    import uuid as _uuid
    same = _uuid.UUID("12345678-1234-5678-1234-567812345678")
    t_other = dict(t, transcript_id="another", exons=[[x[0], x[1]] for x in t["exons"][:-1]] + [[t["exons"][-1][0], t["exons"][-1][1] + 1]])
    t_other.pop("cds", None), t_other.pop("frames", None)
    expect_refusal(ctx, "GeneInterval:different_children_same_guid", lambda: GeneInterval([mktx(t, guid=same), mktx(t_other, guid=same)]),
                   lambda x: None if len({str(c.guid) for c in x.transcripts}) == len(x.transcripts) else "two children share a guid")
    f_other = dict(f, feature_id="another", blocks=[[x[0], x[1]] for x in f["blocks"][:-1]] + [[f["blocks"][-1][0], f["blocks"][-1][1] + 1]])
    expect_refusal(ctx, "FeatureIntervalCollection:different_children_same_guid", lambda: FeatureIntervalCollection([mkfeat(f, guid=same), mkfeat(f_other, guid=same)]),
                   lambda x: None if len({str(c.guid) for c in x.feature_intervals}) == len(x.feature_intervals) else "two children share a guid")
    t_prim = dict(t, is_primary_tx=True)
    t_prim2 = dict(t, is_primary_tx=True, transcript_id="other")
    expect_refusal(ctx, "GeneInterval:two_primaries", lambda: GeneInterval([mktx(t_prim), mktx(t_prim2)]), lambda x: "accepted")
    expect_refusal(ctx, "FeatureIntervalCollection:empty", lambda: FeatureIntervalCollection([]), valid_interval)
    expect_refusal(ctx, "FeatureIntervalCollection:duplicate_children", lambda: FeatureIntervalCollection([mkfeat(f), mkfeat(f)]), valid_interval)
    if len(f.get("qualifiers") or {}) >= 2 or any(len(v_) >= 2 for v_ in (f.get("qualifiers") or {}).values()):
        expect_refusal(ctx, "FeatureIntervalCollection:duplicate_children_qualifiers_in_another_order", lambda: FeatureIntervalCollection([mkfeat(f), mkfeat(_requal(f))]), lambda x: "two children of the same content accepted")
    expect_refusal(ctx, "GeneInterval:mismatched_parent_children",
                   lambda: GeneInterval([mktx(t, chrom_parent(g, name="chrA"))], parent_or_seq_chunk_parent=chrom_parent(g + "A", name="chrB")).get_reference_sequence() and None,
                   lambda x: None)
    # --- variants
    expect_refusal(ctx, "VariantInterval:zero_length", lambda: VariantInterval(a, a, "A", "insertion"), valid_interval)
    expect_refusal(ctx, "VariantInterval:start>end", lambda: VariantInterval(b, a, "A", "SNV"), valid_interval)
    expect_refusal(ctx, "VariantInterval:wrong_alphabet", lambda: VariantInterval(a, b, "AZ#", "SNV"), lambda x: "accepted")
    expect_refusal(ctx, "VariantInterval:beyond_sequence", lambda: VariantInterval(a, n + 5, "A", "deletion", parent_or_seq_chunk_parent=P), valid_interval)
    expect_refusal(ctx, "VariantIntervalCollection:overlapping", lambda: VariantIntervalCollection([VariantInterval(a, b + 1, "A", "x"), VariantInterval(b, b + 2, "C", "x")]), valid_interval)
    # ... whatever the phase sets of the overlapping variants (same set, different sets, one of them unphased), and also when a
    # variant of another phase set is listed or located between them
    for pb1, pb2 in ((1, 2), (1, None), (None, 3), (0, 0), (5, 5)):
        expect_refusal(ctx, "VariantIntervalCollection:overlapping_phase_sets", lambda pb1=pb1, pb2=pb2: VariantIntervalCollection(
            [VariantInterval(a, b + 1, "A", "x", phase_block=pb1), VariantInterval(b, b + 2, "C", "x", phase_block=pb2)]), lambda x: "overlapping variants accepted")
    expect_refusal(ctx, "VariantIntervalCollection:overlapping_with_another_between", lambda: VariantIntervalCollection(
        [VariantInterval(a, b + 3, "A", "x", phase_block=1), VariantInterval(a + 1 if a + 1 <= b else a, b + 2, "G", "y", phase_block=2), VariantInterval(b + 1, b + 4, "C", "x", phase_block=1)]),
        lambda x: "overlapping variants accepted")
    expect_refusal(ctx, "VariantIntervalCollection:empty", lambda: VariantIntervalCollection([]), valid_interval)
    expect_refusal(ctx, "VariantIntervalCollection:duplicates", lambda: VariantIntervalCollection([VariantInterval(a, b, "A", "x"), VariantInterval(a, b, "A", "x")]), valid_interval)
    # --- annotation collections
    gene_ok = lambda: GeneInterval([mktx(t)], gene_id="g")  # noqa: E731
    expect_refusal(ctx, "AnnotationCollection:start_without_end", lambda: AnnotationCollection(genes=[gene_ok()], start=0), valid_interval)
    expect_refusal(ctx, "AnnotationCollection:end_without_start", lambda: AnnotationCollection(genes=[gene_ok()], end=n), valid_interval)
    expect_refusal(ctx, "AnnotationCollection:start>end", lambda: AnnotationCollection(genes=[gene_ok()], start=n + 5, end=0), valid_interval)
    expect_refusal(ctx, "AnnotationCollection:qualifiers_not_dict", lambda: AnnotationCollection(genes=[gene_ok()], qualifiers=[1]), lambda x: "accepted")
    expect_refusal(ctx, "AnnotationCollection:query_outside", lambda: AnnotationCollection(genes=[gene_ok()]).query_by_position(0, 10 ** 6), lambda x: "accepted")
    expect_refusal(ctx, "AnnotationCollection:query_zero_length", lambda: AnnotationCollection(genes=[gene_ok()]).query_by_position(starts[0], starts[0]), lambda x: "accepted")
    expect_refusal(ctx, "AnnotationCollection:get_children_by_type", lambda: AnnotationCollection(genes=[gene_ok()]).get_children_by_type("nonsense"), lambda x: "accepted")
    # --- models
    expect_refusal(ctx, "ParentModel:chunk_without_name", lambda: ParentModel(seq=g, type="SEQUENCE_CHUNK", start=0, end=n).to_parent(), lambda x: "accepted")
    expect_refusal(ctx, "ParentModel:chunk_without_bounds", lambda: ParentModel(seq=g, type="SEQUENCE_CHUNK", sequence_name="c").to_parent(), lambda x: "accepted")
    expect_refusal(ctx, "ParentModel:chunk_length_mismatch", lambda: ParentModel(seq=g, type="SEQUENCE_CHUNK", sequence_name="c", start=0, end=n + 3).to_parent(), lambda x: "accepted")
    d = tx_ok.to_dict()
    d2 = dict(d, exon_ends=list(d["exon_ends"]) + [999])
    expect_refusal(ctx, "TranscriptInterval.from_dict:unequal_lists", lambda: TranscriptInterval.from_dict(d2), valid_interval)
    # (values outside an enumeration, e.g. strand="SIDEWAYS", are wrong *values of the wrong type*: validating them is the
    #  documented job of the marshmallow models, not of from_dict - out of scope like wrong argument types)
    # --- location arithmetic with mismatched parents / unstranded
    la, lb = SingleInterval(a, b, Strand.PLUS, Parent(id="x")), SingleInterval(a, b, Strand.PLUS, Parent(id="y"))
    expect_refusal(ctx, "Location:union_mismatched_parents", lambda: la.union(lb), lambda x: "accepted")
    expect_refusal(ctx, "Location:distance_mismatched_parents", lambda: la.distance_to(lb), lambda x: "accepted")
    expect_refusal(ctx, "Location:strict_parent_compare", lambda: la.intersection(lb, strict_parent_compare=True), lambda x: "accepted")
    expect_refusal(ctx, "Location:extend_negative", lambda: la.extend_absolute(-1, 0), valid_location)
    expect_refusal(ctx, "Location:extend_below_zero", lambda: SingleInterval(a, b, Strand.PLUS).extend_absolute(a + 1, 0), valid_location)
    expect_refusal(ctx, "Location:shift_below_zero", lambda: CompoundInterval([a, b + 1], [b, b + 2], Strand.PLUS).shift_position(-a - 1), valid_location)
    expect_refusal(ctx, "Location:relative_interval_of_unstranded", lambda: SingleInterval(a, b, Strand.UNSTRANDED).relative_interval_to_parent_location(0, 1, Strand.PLUS), valid_location)
    expect_refusal(ctx, "Location:extract_unstranded", lambda: SingleInterval(a, b, Strand.UNSTRANDED, PS).extract_sequence(), lambda x: "accepted")
    expect_refusal(ctx, "Location:extract_without_sequence", lambda: SingleInterval(a, b, Strand.PLUS).extract_sequence(), lambda x: "accepted")
    expect_refusal(ctx, "Location:scan_windows_too_large", lambda: list(SingleInterval(a, b, Strand.PLUS).scan_windows(b - a + 1, 1)), lambda x: "accepted")
    expect_refusal(ctx, "Location:lift_without_parent", lambda: SingleInterval(a, b, Strand.PLUS).lift_over_to_first_ancestor_of_type("chromosome"), lambda x: "accepted")
    expect_refusal(ctx, "Location:relative_to_disjoint", lambda: SingleInterval(a, b, Strand.PLUS).parent_to_relative_location(SingleInterval(b + 1, b + 2, Strand.PLUS)), lambda x: "accepted")


# ------------------------------------------------------------------------------------ mismatched parents, systematically
# "mismatched or missing parents" is a whole family of corruptions: two operands whose parents differ in exactly ONE aspect that
# Parent.equals_except_location documents as significant, through every two-operand operation that documents a parent check.

_G = "ACGTACGTTGCATGCAACGTAGCTAGCTAACG"


def _seq(s):
    return Sequence(s, Alphabet.NT_STRICT)


def parent_pair(kind):
    base = Parent(id="chr1", sequence_type="chromosome", sequence=_seq(_G))
    if kind == "id":
        return base, Parent(id="chr2", sequence_type="chromosome", sequence=_seq(_G))
    if kind == "id_no_sequence":
        return Parent(id="chr1", sequence_type="chromosome"), Parent(id="chr2", sequence_type="chromosome")
    if kind == "sequence_type":
        return base, Parent(id="chr1", sequence_type="contig", sequence=_seq(_G))
    if kind == "sequence_content":
        return base, Parent(id="chr1", sequence_type="chromosome", sequence=_seq(_G[::-1]))
    if kind == "sequence_presence":
        return base, Parent(id="chr1", sequence_type="chromosome")
    if kind == "no_id_sequence_content":
        return Parent(sequence=_seq(_G)), Parent(sequence=_seq(_G[::-1]))
    if kind == "grandparent":
        def gp(i):
            return Parent(id="chr1", sequence_type="sequence_chunk", sequence=_seq(_G),
                          parent=Parent(id="gp%d" % i, sequence_type="chromosome", location=SingleInterval(0, len(_G), Strand.PLUS)))
        return gp(1), gp(2)
    if kind == "missing":
        return base, None
    raise ValueError(kind)


MISMATCH_KINDS = ["id", "id_no_sequence", "sequence_type", "sequence_content", "sequence_presence", "no_id_sequence_content", "grandparent", "missing"]
MISMATCH_OPS = {
    "union": lambda a, b: a.union(b),
    "union_preserve_overlaps": lambda a, b: a.union_preserve_overlaps(b),
    "distance_to": lambda a, b: a.distance_to(b),
    "distance_to_outer": lambda a, b: a.distance_to(b, DistanceType.OUTER),
    "intersection_strict": lambda a, b: a.intersection(b, strict_parent_compare=True),
    "minus_strict": lambda a, b: a.minus(b, strict_parent_compare=True),
    "has_overlap_strict": lambda a, b: a.has_overlap(b, strict_parent_compare=True),
    "contains_strict": lambda a, b: a.contains(b, strict_parent_compare=True),
    "location_relative_to": lambda a, b: a.location_relative_to(b),
    "parent_to_relative_location": lambda a, b: a.parent_to_relative_location(b),
    "from_single_intervals": lambda a, b: CompoundInterval.from_single_intervals(list(a.blocks) + list(b.blocks)),
    "from_single_intervals_interleaved": lambda a, b: CompoundInterval.from_single_intervals(list(b.blocks)[:1] + list(a.blocks) + list(b.blocks)[1:]),
}
# with one parent missing, union-like operations are only checked parent-first (parentless.union(parented) is accepted
# by design: "if self.parent: ..."); the others must refuse in both orders
MISSING_ONE_ORDER = {"union", "union_preserve_overlaps"}
LAYOUTS = {"overlapping": ([[2, 10]], [[4, 14]]), "nested": ([[2, 16]], [[5, 9]]), "compound_overlap": ([[2, 6], [8, 12]], [[4, 7], [11, 15]]),
           "compound_single": ([[2, 6], [8, 12]], [[5, 9]]), "equal": ([[3, 9]], [[3, 9]]), "three_blocks": ([[1, 3], [5, 8], [10, 12]], [[2, 11]])}


def check_parent_mismatch(spec, ctx):
    kind, opname, strand, order = spec["kind"], spec["op"], spec["strand"], spec["order"]
    pa, pb = parent_pair(kind)
    ba, bb = LAYOUTS[spec["layout"]]
    A = mkloc_blocks(ba, strand, pa)
    B = mkloc_blocks(bb, strand, pb)
    if order:
        A, B = B, A
    ctx.nt(kind)
    if kind == "missing" and opname in MISSING_ONE_ORDER and A.parent is None:
        ctx.label("parentless_first_accepted_by_design")
        attempt(ctx, "mismatch:%s:%s" % (kind, opname), lambda: MISMATCH_OPS[opname](A, B))
        return
    out = attempt(ctx, "mismatch:%s:%s" % (kind, opname), lambda: MISMATCH_OPS[opname](A, B))
    if out.kind == "value":
        ctx.fail("accepted_mismatched_parents:%s:%s" % (opname, kind), {"result": repr(out.value)[:160], "layout": spec["layout"], "order": order})
    elif out.kind == "typeerror":
        ctx.fail("typeerror_for_mismatched_parents:%s:%s" % (opname, kind), repr(out.exc)[:160])
    # control: the same operands on ONE parent are accepted (so the refusal above is about the parents, nothing else)
    if pa is not None:
        A2, B2 = mkloc_blocks(ba, strand, pa), mkloc_blocks(bb, strand, pa)
        if order:
            A2, B2 = B2, A2
        ctl = attempt(ctx, "control:%s" % opname, lambda: MISMATCH_OPS[opname](A2, B2))
        if ctl.kind == "value":
            ctx.label("control_accepted")


def enum_parent_mismatch(tier, shard, nshards):
    i = 0
    for kind in MISMATCH_KINDS:
        for opname in MISMATCH_OPS:
            for layout in LAYOUTS:
                for strand in ("+", "-"):
                    for order in (0, 1):
                        i += 1
                        if i % nshards == shard:
                            yield {"kind": kind, "op": opname, "layout": layout, "strand": strand, "order": order}


# ------------------------------------------------------------------------------------ method sweep


def loc_args(n):
    return sorted({0, 1, n - 1, n, n + 1, -1, n // 2})


def sweep_location(ctx, name, loc, plen, other):
    n = len(loc)
    def okloc(v):
        return valid_location(v, plen)
    calls = []
    for i in loc_args(n):
        calls.append(("relative_to_parent_pos(%d)" % i, lambda i=i: loc.relative_to_parent_pos(i), None))
        calls.append(("parent_to_relative_pos(%d)" % (loc.start + i), lambda i=i: loc.parent_to_relative_pos(loc.start + i), None))
        for j in loc_args(n):
            for rs in (Strand.PLUS, Strand.MINUS):
                calls.append(("relative_interval_to_parent_location(%d,%d)" % (i, j), lambda i=i, j=j, rs=rs: loc.relative_interval_to_parent_location(i, j, rs), okloc))
    for w in (1, 3, n, n + 1):
        for stp in (1, 3):
            for sp in (0, n - 1, n):
                calls.append(("scan_windows(%d,%d,%d)" % (w, stp, sp), lambda w=w, stp=stp, sp=sp: list(loc.scan_windows(w, stp, sp)), lambda v: next((r for r in map(okloc, v) if r), None)))
    for nm, fn in (("optimize_blocks", loc.optimize_blocks), ("gap_list", loc.gap_list), ("gaps_location", loc.gaps_location), ("merge_overlapping", loc.merge_overlapping),
                   ("reverse", loc.reverse), ("reverse_strand", loc.reverse_strand), ("extract_sequence", loc.extract_sequence), ("to_biopython", loc.to_biopython),
                   ("scan_blocks", lambda: list(loc.scan_blocks())), ("str", lambda: str(loc)), ("repr", lambda: repr(loc)), ("hash", lambda: hash(loc))):
        calls.append((nm, fn, okloc if nm in ("optimize_blocks", "gaps_location", "merge_overlapping", "reverse", "reverse_strand") else None))
    for es in (0, 1, loc.start, loc.start + 1):
        for ee in (0, 1, 10 ** 6):
            calls.append(("extend_absolute(%d,%d)" % (es, ee), lambda es=es, ee=ee: loc.extend_absolute(es, ee), okloc))
            calls.append(("extend_relative(%d,%d)" % (es, ee), lambda es=es, ee=ee: loc.extend_relative(es, ee), okloc))
    for sh in (0, 1, -loc.start, -loc.start - 1, 10 ** 6):
        calls.append(("shift_position(%d)" % sh, lambda sh=sh: loc.shift_position(sh), okloc))
    for ms in (True, False):
        for fs in (True, False):
            calls.append(("intersection", lambda ms=ms, fs=fs: loc.intersection(other, ms, fs), okloc))
            calls.append(("has_overlap", lambda ms=ms, fs=fs: loc.has_overlap(other, ms, fs), None))
            calls.append(("contains", lambda ms=ms, fs=fs: loc.contains(other, ms, fs), None))
        calls.append(("minus", lambda ms=ms: loc.minus(other, ms), okloc))
    calls.append(("union", lambda: loc.union(other), okloc))
    calls.append(("union_preserve_overlaps", lambda: loc.union_preserve_overlaps(other), okloc))
    calls.append(("parent_to_relative_location", lambda: loc.parent_to_relative_location(other), valid_location))
    calls.append(("location_relative_to", lambda: loc.location_relative_to(other), valid_location))
    for dt in DistanceType:
        calls.append(("distance_to:" + dt.value, lambda dt=dt: loc.distance_to(other, dt), lambda v: None if isinstance(v, int) and v >= 0 else "distance %r" % v))
    for sym in ("+", "-", "."):
        calls.append(("reset_strand(%s)" % sym, lambda sym=sym: loc.reset_strand(STRAND[sym]), okloc))
    calls.append(("reset_parent(None)", lambda: loc.reset_parent(None), valid_location))
    for nm, fn, val in calls:
        out = attempt(ctx, name + "." + nm.split("(")[0], fn)
        if out.kind == "value" and val is not None:
            r = val(out.value)
            if r:
                ctx.fail("ill_formed_result:%s.%s" % (name, nm.split("(")[0]), {"call": nm, "reason": r})
    return len(calls)


def sweep_interval(ctx, name, obj, n_genome):
    calls = []
    L = len(obj) if not isinstance(obj, (GeneInterval, FeatureIntervalCollection, AnnotationCollection)) else 0
    props = ["chromosome_location", "chunk_relative_location", "chromosome_span", "chromosome_gaps_location", "chunk_relative_span", "chunk_relative_gaps_location",
             "is_chunk_relative", "has_sequence", "identifiers", "identifiers_dict", "strand", "chunk_relative_strand", "num_blocks", "num_chunk_relative_blocks",
             "chunk_relative_start", "chunk_relative_end", "chunk_relative_size", "id", "name", "guid", "bin"]
    if isinstance(obj, TranscriptInterval):
        props += ["is_coding", "cds_size", "chunk_relative_cds_size", "cds_start", "cds_end", "chunk_relative_cds_start", "chunk_relative_cds_end", "cds_location",
                  "cds_chunk_relative_location", "chromosome_intron_location", "chunk_relative_intron_location", "has_in_frame_stop", "is_primary_tx", "chunk_relative_cds_blocks"]
    if isinstance(obj, CDSInterval):
        props += ["num_codons", "num_chunk_relative_codons", "has_valid_stop", "has_canonical_start_codon", "has_in_frame_stop", "chunk_relative_frames",
                  "chromosome_codon_locations", "chunk_relative_codon_locations"]
    if isinstance(obj, (GeneInterval, FeatureIntervalCollection)):
        props += ["is_coding", "children_guids"]
    for p in props:
        if p in dir(type(obj)) or p in getattr(obj, "__dict__", {}):
            calls.append((p, lambda p=p: getattr(obj, p), lambda v: valid_location(v) if isinstance(v, Location) else None))
    meths = [("to_dict", lambda: obj.to_dict()), ("to_dict_chunk_relative", lambda: obj.to_dict(chromosome_relative_coordinates=False)), ("str", lambda: str(obj)), ("repr", lambda: repr(obj)),
             ("hash", lambda: hash(obj)), ("eq", lambda: obj == obj), ("len", lambda: len(obj))]
    if "to_gff" in dir(type(obj)):
        meths += [("to_gff", lambda: [str(r) for r in obj.to_gff()]), ("to_gff_chunk_relative", lambda: [str(r) for r in obj.to_gff(chromosome_relative_coordinates=False)])]
    if "to_bed12" in dir(type(obj)):
        meths += [("to_bed12", lambda: str(obj.to_bed12())), ("to_bed12_chunk_relative", lambda: str(obj.to_bed12(chromosome_relative_coordinates=False)))]
    has = lambda m_: m_ in dir(type(obj))  # noqa: E731
    for m in ("get_spliced_sequence", "get_reference_sequence", "get_genomic_sequence", "get_transcript_sequence", "get_cds_sequence", "get_protein_sequence",
              "get_5p_interval", "get_3p_interval", "export_qualifiers", "get_merged_feature", "get_merged_transcript", "get_merged_cds", "get_primary_transcript",
              "get_primary_cds", "get_primary_feature", "get_primary_protein", "get_primary_cds_sequence", "get_primary_transcript_sequence", "get_primary_feature_sequence",
              "extract_sequence", "translate", "optimize_blocks", "optimize_and_combine_blocks"):
        if has(m):
            meths.append((m, getattr(obj, m)))
    if has("scan_codons"):
        meths += [("scan_codons", lambda: list(obj.scan_codons())), ("scan_codons_truncate", lambda: list(obj.scan_codons(True))),
                  ("translate_nonstrict", lambda: obj.translate(strict=False)), ("translate_table11", lambda: obj.translate(translation_table=TranslationTable.PROKARYOTE))]
        for cs_ in (None, obj.start, obj.start + 1, obj.end, obj.end + 1):
            for ce_ in (None, obj.start, obj.end - 1, obj.end, obj.end + 1):
                for ex in (False, True):
                    meths.append(("scan_chromosome_codon_locations", lambda cs_=cs_, ce_=ce_, ex=ex: list(obj.scan_chromosome_codon_locations(cs_, ce_, ex))))
                    meths.append(("scan_chunk_relative_codon_locations", lambda cs_=cs_, ce_=ce_, ex=ex: list(obj.scan_chunk_relative_codon_locations(cs_, ce_, ex))))
    conv = ["sequence_pos_to_feature", "feature_pos_to_sequence", "chunk_relative_pos_to_feature", "feature_pos_to_chunk_relative", "sequence_pos_to_transcript",
            "transcript_pos_to_sequence", "sequence_pos_to_cds", "cds_pos_to_sequence", "cds_pos_to_transcript", "transcript_pos_to_cds", "sequence_pos_to_amino_acid",
            "cds_pos_to_chunk_relative", "chunk_relative_pos_to_cds", "chunk_relative_pos_to_transcript", "transcript_pos_to_chunk_relative"]
    for c in conv:
        if c in dir(type(obj)):
            for v in sorted({0, 1, L - 1, L, obj.start, obj.end - 1, obj.end, n_genome}):
                meths.append((c, lambda c=c, v=v: getattr(obj, c)(v)))
    iconv = ["sequence_interval_to_feature", "feature_interval_to_sequence", "chunk_relative_interval_to_feature", "feature_interval_to_chunk_relative", "sequence_interval_to_transcript",
             "transcript_interval_to_sequence", "cds_interval_to_sequence", "sequence_interval_to_cds", "cds_interval_to_chunk_relative", "chunk_relative_interval_to_cds"]
    for c in iconv:
        if c in dir(type(obj)):
            for (x, y) in ((0, L), (0, 0), (L, L), (L - 1, L), (obj.start, obj.end), (obj.end, obj.end + 1), (0, 1)):
                for s_ in (Strand.PLUS, Strand.MINUS):
                    meths.append((c, lambda c=c, x=x, y=y, s_=s_: getattr(obj, c)(x, y, s_)))
    if "intersect" in dir(type(obj)):
        meths.append(("intersect", lambda: obj.intersect(SingleInterval(obj.start, obj.start + 1, Strand.PLUS, obj.chromosome_location.parent))))
        meths.append(("intersect_disjoint", lambda: obj.intersect(SingleInterval(obj.end + 1, obj.end + 2, Strand.PLUS, obj.chromosome_location.parent))))
    if isinstance(obj, (GeneInterval, FeatureIntervalCollection)):
        kids = list(obj.iter_children())
        meths.append(("query_by_guids", lambda: obj.query_by_guids([kids[0].guid])))
        meths.append(("query_by_guids_unknown", lambda: obj.query_by_guids([obj.guid])))
    for nm, fn in [(p, f_) for p, f_, _ in calls] + meths:
        out = attempt(ctx, name + "." + nm, fn)
        if out.kind == "value":
            v = out.value
            if isinstance(v, Location):
                r = valid_location(v)
                if r:
                    ctx.fail("ill_formed_result:%s.%s" % (name, nm), r)
            elif isinstance(v, (TranscriptInterval, FeatureInterval, CDSInterval, GeneInterval, FeatureIntervalCollection)):
                r = valid_interval(v)
                if r:
                    ctx.fail("ill_formed_result:%s.%s" % (name, nm), r)
    return len(calls) + len(meths)


def check_methods(spec, ctx):
    ctx.nt()
    g = spec["genome"]
    kind = spec["kind"]
    chunk = spec.get("chunk")
    parent = None
    if spec["parent"] == "chrom":
        parent = chrom_parent(g)
    elif spec["parent"] == "chunk":
        parent = chunk_parent(g, chunk[0], chunk[1], strand=spec.get("chunk_strand", "+"), idiom=spec.get("chunk_idiom", "api"))
    ctx.label("parent:" + spec["parent"], "kind:" + kind)
    o = spec["obj"]
    if kind == "loc":
        P = Parent(id="p", sequence=Sequence(g, Alphabet.NT_STRICT, id="p")) if spec["parent"] != "none" else None
        loc = mkloc_blocks(o["blocks"], o["strand"], P, force_compound=o.get("compound", False))
        other = mkloc_blocks(spec["other"]["blocks"], spec["other"]["strand"], P)
        sweep_location(ctx, "Location", loc, len(g) if P else None, other)
        ctx.label("window==len")
    elif kind == "tx":
        obj = mktx(o, parent)
        sweep_interval(ctx, "TranscriptInterval", obj, len(g))
        if obj.cds is not None:
            sweep_interval(ctx, "CDSInterval", obj.cds, len(g))
            T = rm.positions(o["exons"], o["strand"])
            if o["cds_j"] == len(T):
                ctx.label("empty_3p_utr")
            model, _ = rm.frame_walk(o["cds"], o["strand"], o["frames"])
            if not model:
                ctx.label("cds_no_complete_codon")
    elif kind == "feat":
        sweep_interval(ctx, "FeatureInterval", mkfeat(o, parent), len(g))
    elif kind == "gene":
        obj = mkgene(o, parent)
        sweep_interval(ctx, "GeneInterval", obj, len(g))
        if o.get("gene_type") is None:
            ctx.label("merged_feature_without_gene_type")
    elif kind == "fc":
        sweep_interval(ctx, "FeatureIntervalCollection", mkfc(o, parent), len(g))
    elif kind == "collection":
        coll = mkcollection(o, parent)
        name = "AnnotationCollection"
        kids = list(coll.iter_children())
        calls = [("to_dict", lambda: coll.to_dict()), ("to_dict_export_parent", lambda: coll.to_dict(export_parent=True)), ("to_gff", lambda: [str(r) for r in coll.to_gff()]),
                 ("str", lambda: str(coll)), ("len", lambda: len(coll)), ("hash", lambda: hash(coll)), ("children", lambda: coll.children), ("is_empty", lambda: coll.is_empty),
                 ("hierarchical_children_guids", lambda: coll.hierarchical_children_guids), ("interval_guids_to_collections", lambda: coll.interval_guids_to_collections),
                 ("get_reference_sequence", coll.get_reference_sequence), ("query_all", lambda: coll.query_by_position()),
                 ("query_empty_range", lambda: coll.query_by_position(coll.start, coll.start + 1, completely_within=True)),
                 ("query_coding_only", lambda: coll.query_by_position(coding_only=True)),
                 ("query_expand", lambda: coll.query_by_position(coll.start, coll.start + 1, completely_within=False, expand_location_to_children=True)),
                 ("query_expand_end", lambda: coll.query_by_position(max(coll.start, coll.end - 1), coll.end, completely_within=False, expand_location_to_children=True)),
                 ("query_expand_all", lambda: coll.query_by_position(completely_within=False, expand_location_to_children=True)),
                 ("query_by_guids_none", lambda: coll.query_by_guids([])), ("query_by_feature_identifiers_none", lambda: coll.query_by_feature_identifiers("nothing")),
                 ("query_by_interval_guids_none", lambda: coll.query_by_interval_guids([])),
                 ("get_children_by_type", lambda: [coll.get_children_by_type(t_) for t_ in ("feature", "transcript", "variant", "FEATURE")])]
        if kids:
            calls.append(("query_by_guids", lambda: coll.query_by_guids(kids[0].guid)))
        for nm, fn in calls:
            out = attempt(ctx, name + "." + nm, fn)
            if out.kind == "value" and isinstance(out.value, AnnotationCollection):
                r = valid_interval(out.value) or (outside_chunk(out.value) if nm.startswith("query_") and "guid" not in nm and "identifier" not in nm else None)
                if r:
                    ctx.fail("ill_formed_result:%s.%s" % (name, nm), r)
                if out.value.is_empty:
                    ctx.label("empty_query_result")
                    for nm2, fn2 in (("empty.to_dict", out.value.to_dict), ("empty.children", lambda: out.value.children), ("empty.to_gff", lambda: list(out.value.to_gff())),
                                     ("empty.query", lambda: out.value.query_by_position()), ("empty.len", lambda: len(out.value)), ("empty.str", lambda: str(out.value))):
                        attempt(ctx, name + "." + nm2, fn2)
        # a collection built directly with no member at all (a chromosome without annotation yet), with and without a parent: every
        # question is answered or refused with a documented exception, and the dictionary form round-trips
        for tag_, p_ in (("no_parent", None), ("same_parent", parent)):
            try:
                emp = AnnotationCollection(sequence_name="chr1", parent_or_seq_chunk_parent=p_)
            except BioCantorException:
                continue
            ctx.label("memberless_collection:" + tag_)
            for nm2, fn2 in (("to_dict", emp.to_dict), ("from_dict(to_dict)", lambda: AnnotationCollection.from_dict(emp.to_dict(), p_)), ("children", lambda: emp.children),
                             ("to_gff", lambda: list(emp.to_gff())), ("query_by_position", lambda: emp.query_by_position()), ("query_by_position(0,1)", lambda: emp.query_by_position(0, 1)),
                             ("query_by_guids", lambda: emp.query_by_guids([])), ("len", lambda: len(emp)), ("str", lambda: str(emp)), ("hash", lambda: hash(emp)),
                             ("is_empty", lambda: emp.is_empty), ("guid", lambda: emp.guid), ("eq", lambda: emp == AnnotationCollection(sequence_name="chr1", parent_or_seq_chunk_parent=p_))):
                out2 = attempt(ctx, "AnnotationCollection[memberless," + tag_ + "]." + nm2, fn2)
                if nm2 == "is_empty" and out2.kind == "value":
                    ctx.eq("memberless_collection_is_empty", out2.value, True)
                if nm2 == "eq" and out2.kind == "value":
                    ctx.eq("memberless_collection_equals_its_twin", out2.value, True)
    elif kind == "vc":
        vc = mkvc(o, parent)
        for nm, fn in (("to_dict", vc.to_dict), ("alternative_genomic_sequence", lambda: vc.alternative_genomic_sequence), ("parent_with_alternative_sequence", lambda: vc.parent_with_alternative_sequence),
                       ("str", lambda: str(vc)), ("is_coding", lambda: vc.is_coding), ("to_gff", lambda: list(vc.to_gff())),
                       ("lift_over_empty", lambda: vc.lift_over_location(EmptyLocation())), ("query_by_guids", lambda: vc.query_by_guids([vc.variant_intervals[0].guid])),
                       ("lift_over_location", lambda: vc.lift_over_location(SingleInterval(0, len(g), Strand.PLUS)))):
            attempt(ctx, "VariantIntervalCollection." + nm, fn)
        for v in vc.variant_intervals:
            for nm, fn in (("to_dict", v.to_dict), ("alternative_genomic_sequence", lambda: v.alternative_genomic_sequence), ("length_difference", lambda: v.length_difference),
                           ("to_bed12", v.to_bed12), ("to_gff", lambda: list(v.to_gff())), ("export_qualifiers", v.export_qualifiers), ("str", lambda: str(v))):
                attempt(ctx, "VariantInterval." + nm, fn)


# ------------------------------------------------------------------------------------ strategies


@st.composite
def strat_corrupt(draw, tier="quick"):
    t = draw(S.transcript_spec(max_exons=3, max_len=7, frameshift_prob=0, cds_overlap_prob=6, coding=draw(st.sampled_from([True, True, False]))))
    f = draw(S.feature_spec(max_blocks=3, max_len=7))
    hi = max(t["exons"][-1][1], f["blocks"][-1][1])
    n = hi + draw(st.integers(1, 5))
    a = draw(st.integers(0, n - 2))
    b = draw(st.integers(a + 1, n - 1))
    bad = draw(st.lists(st.one_of(st.text(alphabet="ACGTUNRYacgt", min_size=0, max_size=5).filter(lambda x: len(x) != 3),
                                  st.text(alphabet="ACGT-?XZ*. 1", min_size=3, max_size=3).filter(lambda x: any(ch in "-?XZ*. 1" for ch in x))), min_size=2, max_size=5))
    bad_chars = draw(st.lists(st.tuples(st.sampled_from(["start", "middle", "end", "end"]), st.sampled_from(["\n", "\r", "\t", " ", "\x00", "\x0b", "0", "7", ".", "*", "?", "J", "O", "Z", "é", "\u00a0", "\r\n", "\n\n"]),
                                        st.sampled_from(["NT_STRICT", "NT_EXTENDED", "NT_EXTENDED_GAPPED", "NT_STRICT_GAPPED", "NT_STRICT_UNKNOWN"])).map(list), min_size=2, max_size=5))
    ncod = draw(st.integers(2, 5))
    cods = [draw(st.sampled_from(["ATG", "GCT", "TTT", "CCA", "GGA"])) for _ in range(ncod)]
    at = draw(st.integers(1, ncod - 1))          # never the first codon (that one is subject to the start-codon rule)
    cods[at] = draw(st.sampled_from(["GNN", "NNN", "GCN", "ANT", "RYK", "NTG"]))
    return {"genome": draw(S.dna(n, n)), "tx": t, "feat": f, "a": a, "b": b, "bad_codons": bad, "bad_chars": bad_chars,
            "ambiguous_cds": {"genome": "".join(cods) + draw(st.sampled_from(["", "T", "TA"])), "at": at}}


@st.composite
def strat_methods(draw, tier="quick"):
    kind = draw(st.sampled_from(["loc", "loc", "tx", "tx", "tx", "feat", "gene", "fc", "collection", "vc"]))
    sp = {"kind": kind}
    if kind == "loc":
        o = draw(S.location_spec(max_k=4, allow_overlap=draw(st.integers(0, 4)) == 0, allow_nested=True, strands=["+", "-", "+", "-", "."], shift_prob=0))
        o2 = draw(S.location_spec(max_k=3, strands=["+", "-", "."], shift_prob=0))
        if sum(x[1] - x[0] for x in o["blocks"]) == 0:
            o["blocks"][0][1] += 1
        sp["obj"], sp["other"] = o, o2
        hi = max(max(x[1] for x in o["blocks"]), max(x[1] for x in o2["blocks"]))
    elif kind == "tx":
        o = draw(S.transcript_spec(max_exons=4, max_len=8, cds_overlap_prob=6, coding=draw(st.sampled_from([True, True, False]))))
        hi = o["exons"][-1][1]
        sp["obj"] = o
    elif kind == "feat":
        o = draw(S.feature_spec())
        hi = o["blocks"][-1][1]
        sp["obj"] = o
    elif kind == "gene":
        o = draw(S.gene_spec(max_tx=3, max_exons=3, max_len=7, cds_overlap_prob=8, same_strand=draw(st.booleans())))
        hi = max(t["exons"][-1][1] for t in o["transcripts"])
        sp["obj"] = o
    elif kind == "fc":
        o = draw(S.feature_collection_spec())
        hi = max(f["blocks"][-1][1] for f in o["features"])
        sp["obj"] = o
    elif kind == "collection":
        o = draw(S.collection_spec())
        hi = o.pop("hi")
        sp["obj"] = o
    else:
        vs = draw(S.variant_specs(1, 25, max_n=3))
        sp["obj"] = {"variants": vs}
        hi = max(v["end"] for v in vs)
    n = hi + draw(st.integers(1, 6))
    sp["genome"] = draw(S.dna(n, n))
    sp["parent"] = draw(st.sampled_from(["none", "chrom", "chrom", "chunk"]))
    if sp["parent"] == "chunk":
        cs = draw(st.integers(0, n - 1))
        sp["chunk"] = [cs, draw(st.integers(cs + 1, n))]
        if kind not in ("collection", "vc"):
            sp.update(draw(S.chunk_flavour()))
        if kind in ("collection", "vc"):
            sp["chunk"] = [0, n] if draw(st.booleans()) else [draw(st.integers(0, 2)), n]
            if kind == "vc":
                sp["chunk"][0] = min(sp["chunk"][0], min(v["start"] for v in sp["obj"]["variants"]))
            if kind == "collection" and sp["obj"].get("variant_collections"):
                sp["chunk"][0] = 0
    return sp


PROP = Prop(
    pid="C19",
    legs=[
        Leg("corruptions", check_corruptions, strategy=strat_corrupt, n_quick=250, n_thorough=2500, shards_quick=4,
            must_hit=["cds_in_intron_tried", "corruption:SingleInterval:start>end", "corruption:VariantIntervalCollection:overlapping", "corruption:GeneInterval:duplicate_children"],
            rule="a valid base (transcript, feature, interval, genome) with exactly one constructor argument perturbed to each kind of invalid value (~75 corruption kinds over SingleInterval, CompoundInterval, Parent, Sequence, TranscriptInterval, CDSInterval, FeatureInterval, collections, variants, AnnotationCollection, ParentModel, from_dict, location arithmetic)"),
        Leg("methods", check_methods, strategy=strat_methods, n_quick=300, n_thorough=3000, shards_quick=8,
            must_hit=["kind:loc", "kind:tx", "kind:gene", "kind:collection", "kind:vc", "parent:chunk", "empty_3p_utr", "cds_no_complete_codon", "window==len",
                      "merged_feature_without_gene_type", "empty_query_result"],
            rule="valid locations, transcripts (+CDS), features, genes, feature collections, annotation collections, variant collections on no parent / chromosome / chunk (incl. chunks that miss or cut the object): every public accessor/method of a registry with in-range and boundary arguments (0, len-1, len, len+1, window == length, zero-length requests, windows at the CDS ends)"),
        Leg("methods_coverage_guided", check_methods, fuzz_of="methods", n_quick=150, n_thorough=6000, shards_quick=2, shards_thorough=8,
            rule="coverage-guided: the `methods` leg's strategy driven by atheris/libFuzzer through hypothesis.fuzz_one_input with the `inscripta` package instrumented (fresh empty corpus, budget in runs; same check, clauses and known-finding predicates; failures collected unshrunk)"),
        Leg("parent_mismatch", check_parent_mismatch, enumerate=enum_parent_mismatch, exhaustive=True, shards_quick=8, shards_thorough=8,
            must_hit=["control_accepted"],
            rule="8 ways two parents can differ in exactly one significant aspect (id, id without sequences, sequence type, sequence content, sequence presence, "
                 "content without ids, grandparent, one missing) x 12 two-operand operations that document a parent check (union, union_preserve_overlaps, "
                 "distance_to, strict intersection/minus/has_overlap/contains, location_relative_to, parent_to_relative_location, from_single_intervals) x 6 "
                 "operand layouts x both strands x both operand orders: must refuse with a documented exception; the same operands on one parent are the control"),
    ],
    level="fault_enumeration",
    rule="Outcome must be a documented exception (BioCantorException subclass, ValueError, NotImplementedError; TypeError recorded) or a value that passes the "
         "well-formedness validators. Violation: AttributeError, IndexError, KeyError, RecursionError, UnboundLocalError, NameError, ZeroDivisionError, leaked "
         "StopIteration, or an accepted ill-formed object. Non-trivial: every case (each holds dozens of corruptions / calls).",
    assumptions=["wrong *types* of arguments are out of scope", "'every public method' is the registry in checks/c19.py"],
)
