"""C15 — built-in biological tables and enumerated algebras (finite domains, enumerated completely)."""
import itertools
import json
import os
import subprocess
import sys

from hypothesis import strategies as st

import harness.compat  # noqa: F401
from Bio.Data import CodonTable
from Bio.Seq import complement as bio_complement

from harness.core import Leg, Prop, VERIF_DIR, REPO_DIR
from inscripta.biocantor import constants
from inscripta.biocantor.gene.biotype import Biotype
from inscripta.biocantor.gene.cds_frame import CDSFrame, CDSPhase
from inscripta.biocantor.gene.codon import Codon, TranslationTable, START_CODONS_BY_TRANSLATION_TABLE
from inscripta.biocantor.location.strand import Strand
from inscripta.biocantor.sequence.alphabet import Alphabet, ALPHABET_TO_NUCLEOTIDE_COMPLEMENT
from inscripta.biocantor.sequence.sequence import Sequence

# IUPAC nucleotide codes, typed in from the IUPAC-IUB 1970/1985 definition (not imported from BioCantor)
IUPAC = {
    "A": "A", "C": "C", "G": "G", "T": "T", "U": "T",
    "R": "AG", "Y": "CT", "S": "CG", "W": "AT", "K": "GT", "M": "AC",
    "B": "CGT", "D": "AGT", "H": "ACT", "V": "ACG", "N": "ACGT",
}
IUPAC_COMPLEMENT = {
    "A": "T", "C": "G", "G": "C", "T": "A", "U": "A",
    "R": "Y", "Y": "R", "S": "S", "W": "W", "K": "M", "M": "K",
    "B": "V", "V": "B", "D": "H", "H": "D", "N": "N", "-": "-",
}
LETTERS16 = "ATUCGNWSMKRYBDHV"

_T1 = CodonTable.unambiguous_dna_by_id[1]
_T11 = CodonTable.unambiguous_dna_by_id[11]


def std_translate(codon):
    if codon in _T1.stop_codons:
        return "*"
    return _T1.forward_table[codon]


def expansions(codon):
    return ["".join(p) for p in itertools.product(*(IUPAC[c] for c in codon))]


def shard_iter(it, shard, nshards):
    for i, x in enumerate(it):
        if i % nshards == shard:
            yield x


# ------------------------------------------------------------------ codons


def enum_codons(tier, shard, nshards):
    def gen():
        for t in itertools.product(LETTERS16, repeat=3):
            c = "".join(t)
            yield {"codon": c}
            yield {"codon": c.lower()}
        # mixed case samples of strict codons
        for t in itertools.product("ACGT", repeat=3):
            c = "".join(t)
            yield {"codon": c[0].lower() + c[1:]}

    return shard_iter(gen(), shard, nshards)


def check_codon(spec, ctx):
    s = spec["codon"]
    up = s.upper()
    ctx.nt("strict" if set(up) <= set("ACGT") else "ambiguous", "lower" if s != up else None)
    c = Codon(s)
    ctx.true("codon_singleton", c is Codon(up) and str(c) == up and c.value == up and c.name == up)
    exp = sorted(set(std_translate(e) for e in expansions(up)))
    strict_aa = c.translate(strict=True)
    loose_aa = c.translate(strict=False)
    is_strict = set(up) <= set("ACGT")
    ctx.eq("is_strict_codon", c.is_strict_codon, is_strict)
    if is_strict:
        ctx.eq("strict_translation_standard_code", strict_aa, std_translate(up))
        ctx.eq("nonstrict_translation_of_strict_codon", loose_aa, std_translate(up))
    else:
        # strict mode never translates an ambiguous codon
        ctx.eq("strict_mode_refuses_ambiguous", strict_aa, "X")
        if loose_aa != "X":
            ctx.label("ambiguous_translated")
            ctx.eq("ambiguous_translation_sound", [loose_aa], exp, extra=up)
    # stop codon flag
    ctx.eq("is_stop_codon", c.is_stop_codon, is_strict and up in _T1.stop_codons)
    ctx.eq("is_canonical_start", c.is_canonical_start_codon, up == "ATG")
    # start codons per table
    ctx.eq("start_default", c.is_start_codon_in_specific_translation_table(TranslationTable.DEFAULT), up == "ATG")
    ctx.eq("start_table1", c.is_start_codon_in_specific_translation_table(TranslationTable.STANDARD), up in _T1.start_codons)
    ctx.eq("start_table11", c.is_start_codon_in_specific_translation_table(TranslationTable.PROKARYOTE), up in _T11.start_codons)
    # synonymous codons: all strict codons with the same amino acid
    aa = loose_aa
    syn_incl = sorted(str(x) for x in c.synonymous_codons(include_self=True))
    syn_excl = sorted(str(x) for x in c.synonymous_codons(include_self=False))
    if aa == "X":
        ctx.eq("synonymous_untranslatable", (syn_incl, syn_excl), ([up], []))
    else:
        all_syn = sorted("".join(t) for t in itertools.product("ACGT", repeat=3) if std_translate("".join(t)) == aa)
        ctx.eq("synonymous_excl", syn_excl, [x for x in all_syn if x != up])
        if is_strict:
            ctx.eq("synonymous_incl", syn_incl, all_syn)
        else:
            ctx.eq("synonymous_incl_ambiguous", syn_incl, all_syn)


def enum_tables(tier, shard, nshards):
    return shard_iter(iter([{"table": "gencode"}, {"table": "extended"}, {"table": "aacodons"}, {"table": "starts"}, {"table": "enum"}]), shard, nshards)


def check_tables(spec, ctx):
    ctx.nt(spec["table"])
    all64 = ["".join(t) for t in itertools.product("ACGT", repeat=3)]
    if spec["table"] == "gencode":
        ctx.eq("gencode_keys", sorted(constants.gencode), sorted(all64))
        ctx.eq("gencode_values", {k: v for k, v in constants.gencode.items()}, {k: std_translate(k) for k in all64})
    elif spec["table"] == "extended":
        for k, v in constants.extended_gencode.items():
            ctx.eq("extended_gencode_sound:" + k, sorted(set(std_translate(e) for e in expansions(k))), [v])
    elif spec["table"] == "aacodons":
        flat = [c for v in constants.aacodons.values() for c in v]
        ctx.eq("aacodons_partition_cover", sorted(flat), sorted(all64))
        ctx.eq("aacodons_partition_disjoint", len(flat), len(set(flat)))
        for aa, cods in constants.aacodons.items():
            ctx.eq("aacodons_class:" + aa, sorted(cods), sorted(c for c in all64 if std_translate(c) == aa))
    elif spec["table"] == "starts":
        got = {int(k): sorted(str(c) for c in v) for k, v in START_CODONS_BY_TRANSLATION_TABLE.items()}
        ctx.eq("start_sets", got, {0: ["ATG"], 1: sorted(_T1.start_codons), 11: sorted(_T11.start_codons)})
        ctx.eq("stop_sets", sorted(constants.aacodons["*"]), sorted(_T1.stop_codons))
        ctx.eq("stop_sets_11", sorted(constants.aacodons["*"]), sorted(_T11.stop_codons))
    elif spec["table"] == "enum":
        ctx.eq("translation_table_values", {t.name: t.value for t in TranslationTable}, {"DEFAULT": 0, "STANDARD": 1, "PROKARYOTE": 11})


# ------------------------------------------------------------------ complement


def enum_complement(tier, shard, nshards):
    def gen():
        for alpha in Alphabet:
            if not alpha.is_nucleotide_alphabet():
                yield {"alphabet": alpha.name, "letter": None}
                continue
            for ch in alpha.value:
                yield {"alphabet": alpha.name, "letter": ch}
                if ch.lower() != ch:
                    yield {"alphabet": alpha.name, "letter": ch.lower()}

    return shard_iter(gen(), shard, nshards)


def check_complement(spec, ctx):
    from inscripta.biocantor.exc import AlphabetError

    alpha = Alphabet[spec["alphabet"]]
    ch = spec["letter"]
    if ch is None:
        ctx.nt("non_nucleotide_alphabet")
        try:
            Sequence("A", alpha).reverse_complement()
            ctx.fail("revcomp_of_non_nucleotide_alphabet_accepted")
        except AlphabetError:
            pass
        return
    ctx.nt("lower" if ch.islower() else "upper", "rare_iupac" if ch.upper() in "BDHVKM" else None)
    table = ALPHABET_TO_NUCLEOTIDE_COMPLEMENT[alpha]
    ctx.true("letter_in_table", ch in table, ch)
    if ch not in table:
        return
    exp = IUPAC_COMPLEMENT[ch.upper()]
    exp = exp.lower() if ch.islower() else exp
    ctx.eq("complement_iupac", table[ch], exp, extra=ch)
    ctx.eq("complement_biopython", table[ch], bio_complement(ch) if ch.upper() != "U" else exp, extra=ch)
    back = table[table[ch]]
    if ch.upper() == "U":
        ctx.true("complement_involution_U", back.upper() in ("T", "U") and back.islower() == ch.islower(), back)
    else:
        ctx.eq("complement_involution", back, ch)
    # through the public API, at several positions
    seq = Sequence(ch + "A" + ch, alpha)
    rc = str(seq.reverse_complement())
    a_c = "T"
    ctx.eq("reverse_complement_api", rc, exp + a_c + exp)
    # complementing the RESULT OBJECT again goes through the table again (it is not "undo": U -> A -> T, not back to U), and equals
    # what a freshly built sequence of the same characters gives
    rc_obj = seq.reverse_complement()
    twice = str(rc_obj.reverse_complement())
    exp2 = "".join(table[c_] for c_ in reversed(rc))
    ctx.eq("reverse_complement_of_the_result_object", twice, exp2, extra=ch)
    ctx.eq("reverse_complement_of_a_fresh_equal_sequence", str(Sequence(rc, alpha).reverse_complement()), exp2, extra=ch)
    # every key in the table belongs to the alphabet
    for k in table:
        ctx.true("table_key_in_alphabet", k.upper() in alpha.value, k)


# ------------------------------------------------------------------ frames / phases


def enum_frames(tier, shard, nshards):
    def gen():
        for f in CDSFrame:
            for n in range(-30, 31):
                yield {"frame": f.name, "shift": n}
        for f in CDSFrame:
            yield {"frame": f.name, "phase_roundtrip": True}
        for i in range(-3, 5):
            yield {"from_int": i}

    return shard_iter(gen(), shard, nshards)


def check_frames(spec, ctx):
    if "from_int" in spec:
        i = spec["from_int"]
        ctx.nt("from_int")
        for cls in (CDSFrame, CDSPhase):
            try:
                v = cls.from_int(i)
                ctx.true("from_int_range", i in (-1, 0, 1, 2) and v.value == i, i)
            except ValueError:
                ctx.true("from_int_refusal", i not in (-1, 0, 1, 2), i)
        return
    f = CDSFrame[spec["frame"]]
    if spec.get("phase_roundtrip"):
        ctx.nt("phase")
        p = f.to_phase()
        ctx.true("to_phase_type", isinstance(p, CDSPhase))
        ctx.eq("phase_frame_roundtrip", p.to_frame(), f)
        ph = CDSPhase[spec["frame"]]
        ctx.eq("frame_phase_roundtrip", ph.to_frame().to_phase(), ph)
        exp = {-1: -1, 0: 0, 1: 2, 2: 1}[f.value]  # GFF3: phase = (3 - frame) % 3
        ctx.eq("phase_value", p.value, exp)
        ctx.eq("phase_to_frame_value", ph.to_frame().value, exp)
        ctx.eq("phase_to_gff", ph.to_gff(), "." if ph.value == -1 else str(ph.value))
        return
    n = spec["shift"]
    ctx.nt("negative" if n < 0 else "nonneg")
    got = f.shift(n)
    if f is CDSFrame.NONE:
        ctx.eq("shift_none_fixed", got, CDSFrame.NONE)
    else:
        ctx.eq("shift_modular", got.value, (f.value + n) % 3)
        # group law on a sample of second shifts
        for m in (-4, -1, 0, 2, 5):
            ctx.eq("shift_additive", f.shift(n).shift(m), f.shift(n + m))


# ------------------------------------------------------------------ strands


def enum_strands(tier, shard, nshards):
    def gen():
        for a in Strand:
            for b in Strand:
                yield {"a": a.name, "b": b.name}
        for s in ["+", "-", ".", "", "?", "1", "plus", None]:
            yield {"symbol": s}
        for i in range(-3, 4):
            yield {"int": i}

    return shard_iter(gen(), shard, nshards)


def check_strands(spec, ctx):
    from inscripta.biocantor.exc import InvalidStrandException

    ctx.nt()
    if "symbol" in spec:
        s = spec["symbol"]
        try:
            st = Strand.from_symbol(s)
            ctx.true("symbol_accept", s in ("+", "-", "."), s)
            ctx.eq("symbol_roundtrip", st.to_symbol(), s)
            ctx.eq("symbol_str", str(st), s)
        except ValueError:
            ctx.true("symbol_refuse", s not in ("+", "-", "."), s)
        return
    if "int" in spec:
        i = spec["int"]
        try:
            st = Strand.from_int(i)
            ctx.true("int_accept", i in (1, -1, 0), i)
            ctx.eq("int_roundtrip", st.value, i)
        except ValueError:
            ctx.true("int_refuse", i not in (1, -1, 0), i)
        return
    a, b = Strand[spec["a"]], Strand[spec["b"]]
    sign = {Strand.PLUS: 1, Strand.MINUS: -1, Strand.UNSTRANDED: 0}
    inv = {v: k for k, v in sign.items()}
    ctx.eq("relative_to_sign_product", a.relative_to(b), inv[sign[a] * sign[b]])
    ctx.eq("relative_to_commutes", a.relative_to(b), b.relative_to(a))
    ctx.eq("reverse_involution", a.reverse().reverse(), a)
    ctx.eq("reverse_sign", sign[a.reverse()], -sign[a])
    ctx.eq("symbol_roundtrip", Strand.from_symbol(a.to_symbol()), a)
    ctx.eq("int_roundtrip", Strand.from_int(a.value), a)
    ctx.eq("value_is_sign", a.value, sign[a])
    for c in Strand:
        ctx.eq("relative_to_associative", a.relative_to(b).relative_to(c), a.relative_to(b.relative_to(c)))
    # total order
    lt, gt, eq = a < b, a > b, a == b
    ctx.eq("order_trichotomy", int(lt) + int(gt) + int(eq), 1)
    ctx.eq("order_documented", lt, {"PLUS": 1, "MINUS": 2, "UNSTRANDED": 3}[a.name] < {"PLUS": 1, "MINUS": 2, "UNSTRANDED": 3}[b.name])
    for c in Strand:
        if a < b and b < c:
            ctx.true("order_transitive", a < c)
    try:
        a.assert_directional()
        ctx.true("assert_directional_accept", a in (Strand.PLUS, Strand.MINUS))
    except InvalidStrandException:
        ctx.true("assert_directional_refuse", a is Strand.UNSTRANDED)


# ------------------------------------------------------------------ biotypes

# synonym groups as documented in gene/biotype.py (names sharing a value), typed here
SYNONYMS = [
    {"protein_coding", "protein-coding", "mRNA"},
    {"misc_RNA", "miscRNA"},
    {"pseudogene", "pseudo"},
    {"lncRNA", "lnc_RNA"},
]


def enum_biotypes(tier, shard, nshards):
    return shard_iter(iter([{"name": n} for n in Biotype.__members__] + [{"name": "not_a_biotype"}, {"name": "MRNA"}]), shard, nshards)


def check_biotypes(spec, ctx):
    n = spec["name"]
    ctx.nt()
    if n not in Biotype.__members__:
        ctx.eq("has_name_false", Biotype.has_name(n), False)
        try:
            Biotype[n]
            ctx.fail("unknown_name_accepted", n)
        except KeyError:
            pass
        return
    b = Biotype[n]
    ctx.true("has_name", Biotype.has_name(n))
    ctx.true("has_value", Biotype.has_value(b.value))
    ctx.eq("value_roundtrip", Biotype(b.value), b)
    group = next((g for g in SYNONYMS if n in g), {n})
    same = {m for m, v in Biotype.__members__.items() if v is b}
    ctx.eq("synonym_group", sorted(same), sorted(group))
    for m in group:
        ctx.true("synonyms_identical", Biotype[m] is b, m)
    ctx.true("canonical_name_in_group", b.name in group, b.name)


# ------------------------------------------------------------------ call histories on a pristine process
# The tables are answers of *functions*; a memo filled by an earlier question must not change a later answer.  Every history
# runs in a child forked from a pristine interpreter (harness/zygote.py), so it starts from fresh-process state.

from harness.zygote import Client  # noqa: E402

_zygote = Client("harness.zy_tables")


def ask_pristine(calls):
    return _zygote.ask(calls)


STRICT64 = ["".join(t) for t in itertools.product("ACGT", repeat=3)]
FRAMES = ["ZERO", "ONE", "TWO", "NONE"]
STRANDS = ["PLUS", "MINUS", "UNSTRANDED"]


def oracle_call(c):
    """expected answer of one zygote call, from the typed-in / Biopython references; None = not judged here"""
    op = c[0]
    if op in ("syn", "translate", "stop", "strict", "canon", "start", "str"):
        up = c[1].upper()
        is_strict = set(up) <= set("ACGT")
        exp_aa = sorted(set(std_translate(e) for e in expansions(up)))
        loose = exp_aa[0] if len(exp_aa) == 1 else "X"
        if op == "translate":
            if is_strict:
                return std_translate(up)
            return "X" if c[2] else None  # the non-strict ambiguous case is judged by the codons leg
        if op == "stop":
            return is_strict and up in _T1.stop_codons
        if op == "strict":
            return is_strict
        if op == "canon":
            return up == "ATG"
        if op == "start":
            return up in {"DEFAULT": ["ATG"], "STANDARD": _T1.start_codons, "PROKARYOTE": _T11.start_codons}[c[2]]
        if op == "str":
            return [up, up, up]
        if op == "syn":
            if not is_strict:
                return None
            fam = sorted(x for x in STRICT64 if std_translate(x) == std_translate(up))
            return fam if c[2] else [x for x in fam if x != up]
    if op == "shift":
        if c[1] == "NONE":
            return None
        return FRAMES[(FRAMES.index(c[1]) + c[2]) % 3]
    if op == "to_phase":
        return {"ZERO": "ZERO", "ONE": "TWO", "TWO": "ONE", "NONE": "NONE"}[c[1]]
    if op == "to_frame":
        return {"ZERO": "ZERO", "ONE": "TWO", "TWO": "ONE", "NONE": "NONE"}[c[1]]
    if op == "phase_gff":
        return {"ZERO": "0", "ONE": "1", "TWO": "2", "NONE": "."}[c[1]]
    if op == "rev":
        return {"PLUS": "MINUS", "MINUS": "PLUS", "UNSTRANDED": "UNSTRANDED"}[c[1]]
    if op == "rel":
        a, b = c[1], c[2]
        if "UNSTRANDED" in (a, b):
            return "UNSTRANDED"
        return "PLUS" if a == b else "MINUS"
    if op == "symbol":
        return {"+": "PLUS", "-": "MINUS", ".": "UNSTRANDED"}[c[1]]
    if op == "revcomp":
        return "".join(IUPAC_COMPLEMENT[x] for x in reversed(c[1]))
    return None


def check_call_history(spec, ctx):
    calls = [list(c) for c in spec["calls"]] + [["sweep_syn_held"], ["sweep_syn"]]
    got = ask_pristine(calls)
    held = got[-2]
    got = got[:-2] + got[-1:]
    calls = calls[:-2] + calls[-1:]
    if any(isinstance(c[1], str) and ("U" in c[1].upper()) for c in spec["calls"] if len(c) > 1 and c[0] in ("syn", "translate", "stop", "strict", "canon", "start", "str")):
        ctx.label("rna_spelling_in_history")
    if "exc" in held:
        ctx.fail("held_sweep_raised", held)
    else:
        for k in STRICT64:
            fam = sorted(x for x in STRICT64 if std_translate(x) == std_translate(k))
            incl, excl, aa, stop, strict, text, start1, in11, samehash, same = held["v"][k]
            ctx.eq("held_object_after_history", [incl, excl, aa, stop, strict, text, start1, in11, samehash, same],
                   [fam, [x for x in fam if x != k], std_translate(k), k in _T1.stop_codons, True, k, k in _T1.start_codons, k in _T11.start_codons, True, True], extra=k)
    fams = {}
    for c in calls[:-1]:
        if c[0] == "syn" and set(c[1].upper()) <= set("ACGT"):
            fams.setdefault(std_translate(c[1].upper()), []).append(c[2])
    if any(len(v) >= 2 and len(set(v)) == 2 for v in fams.values()):
        ctx.nt("same_family_both_flags")
    if any(v and v[0] is False for v in fams.values()):
        ctx.label("family_first_asked_without_self")
    for i, (c, g) in enumerate(zip(calls[:-1], got)):
        exp = oracle_call(c)
        if exp is None:
            continue
        if "exc" in g:
            ctx.fail("history_call_raised:%s" % c[0], {"call": c, "index": i, "exc": g})
            continue
        ctx.eq("history_answer:%s" % c[0], g["v"], exp, extra={"call": c, "index": i})
    sweep = got[-1]
    if "exc" in sweep:
        ctx.fail("sweep_raised", sweep)
        return
    sweep = sweep["v"]
    seen = {}
    for k in STRICT64:
        fam = sorted(x for x in STRICT64 if std_translate(x) == std_translate(k))
        incl, excl, aa, stop = sweep[k]
        ctx.eq("after_history:synonymous_incl", incl, fam, extra=k)
        ctx.eq("after_history:synonymous_excl", excl, [x for x in fam if x != k], extra=k)
        ctx.eq("after_history:translate", aa, std_translate(k), extra=k)
        ctx.eq("after_history:is_stop", stop, k in _T1.stop_codons, extra=k)
        seen.setdefault(tuple(incl), set()).add(k)
    # the synonym sets partition the 64 codons
    ctx.true("after_history:partition", sorted(x for s_ in seen for x in s_) == STRICT64 and all(set(k) == v for k, v in seen.items()),
             {"classes": len(seen)})


@st.composite
def strat_history(draw, tier="quick"):
    fams = draw(st.lists(st.sampled_from("GLSRA*MWFKIV"), min_size=1, max_size=3))
    pool = [x for x in STRICT64 if std_translate(x) in fams]
    amb = [p[:2] + "N" for p in pool] + ["NNN", "RAY", "ggn"] + [p.replace("T", "U") for p in pool if "T" in p] + [p.replace("T", "u").lower() for p in pool if "T" in p][:4]
    codon = st.one_of(st.sampled_from(pool), st.sampled_from(pool).map(str.lower), st.sampled_from(amb), st.sampled_from(STRICT64))
    one = st.one_of(
        st.tuples(st.just("syn"), codon, st.booleans()),
        st.tuples(st.just("syn"), codon, st.booleans()),
        st.tuples(st.just("translate"), codon, st.booleans()),
        st.tuples(st.sampled_from(["stop", "strict", "canon", "str"]), codon),
        st.tuples(st.just("start"), codon, st.sampled_from(["DEFAULT", "STANDARD", "PROKARYOTE"])),
        st.tuples(st.just("shift"), st.sampled_from(FRAMES[:3]), st.integers(-7, 7)),
        st.tuples(st.sampled_from(["to_phase"]), st.sampled_from(FRAMES)),
        st.tuples(st.sampled_from(["to_frame", "phase_gff"]), st.sampled_from(FRAMES)),
        st.tuples(st.just("rel"), st.sampled_from(STRANDS), st.sampled_from(STRANDS)),
        st.tuples(st.just("rev"), st.sampled_from(STRANDS)),
        st.tuples(st.just("symbol"), st.sampled_from("+-.")),
        st.tuples(st.just("revcomp"), st.text("ACGTRYKMN", min_size=1, max_size=6), st.just("NT_EXTENDED")),
    )
    calls = [list(c) for c in draw(st.lists(one, min_size=1, max_size=8))]
    if draw(st.integers(0, 3)):
        # a run of synonym questions inside one family (strict and ambiguous members, both flags), placed first or last
        fam = [x for x in STRICT64 if std_translate(x) == fams[0]]
        run = draw(st.lists(st.tuples(st.just("syn"), st.sampled_from(fam + [fam[0][:2] + "N", fam[-1].lower()]), st.booleans()), min_size=2, max_size=5))
        run = [list(c) for c in run]
        calls = run + calls if draw(st.booleans()) else calls + run
    return {"calls": calls}


def enum_first_questions(tier, shard, nshards):
    """every single first question about synonyms (64 strict + 16 ambiguous codons x include_self), and every ordered pair of
    questions inside three families"""
    def gen():
        for k in STRICT64 + [a + b + "N" for a in "ACGT" for b in "ACGT"]:
            for f in (False, True):
                yield {"calls": [["syn", k, f]]}
        for aa in "G*I":
            fam = [x for x in STRICT64 if std_translate(x) == aa] + [[x for x in STRICT64 if std_translate(x) == aa][0][:2] + "N"]
            qs = [["syn", k, f] for k in fam for f in (False, True)] + [["translate", fam[0], True], ["stop", fam[0]]]
            for a in qs:
                for b in qs:
                    yield {"calls": [a, b]}
    return shard_iter(gen(), shard, nshards)


PROP = Prop(
    pid="C15",
    legs=[
        Leg("codons", check_codon, enumerate=enum_codons, exhaustive=True, shards_quick=4, shards_thorough=4,
            rule="all 16^3 IUPAC triplets in upper and lower case + 64 mixed-case strict codons; oracle Bio.Data.CodonTable table 1/11 over typed-in IUPAC expansions"),
        Leg("tables", check_tables, enumerate=enum_tables, exhaustive=True, shards_quick=1, shards_thorough=1,
            rule="whole-table checks: gencode == NCBI table 1, extended_gencode sound, aacodons partition, start/stop sets"),
        Leg("complement", check_complement, enumerate=enum_complement, exhaustive=True, shards_quick=1, shards_thorough=1,
            rule="every letter x case of every nucleotide alphabet; oracle typed-in IUPAC complement and Bio.Seq.complement"),
        Leg("frames", check_frames, enumerate=enum_frames, exhaustive=True, shards_quick=1, shards_thorough=1,
            rule="CDSFrame x shift in [-30,30]; frame<->phase; from_int"),
        Leg("strands", check_strands, enumerate=enum_strands, exhaustive=True, shards_quick=1, shards_thorough=1,
            rule="all ordered strand pairs (+triples for associativity/transitivity), all symbols/ints"),
        Leg("biotypes", check_biotypes, enumerate=enum_biotypes, exhaustive=True, shards_quick=1, shards_thorough=1,
            rule="every Biotype member name; synonym groups typed in from the documentation"),
        Leg("first_questions", check_call_history, enumerate=enum_first_questions, exhaustive=True, shards_quick=8, shards_thorough=8,
            must_hit=["family_first_asked_without_self"],
            rule="each history runs in a child forked from a pristine interpreter: every single first synonym question (80 codons x include_self) and every "
                 "ordered pair of questions inside the Gly, stop and Ile families, each followed by a sweep of the whole synonym partition"),
        Leg("call_histories", check_call_history, strategy=strat_history, n_quick=150, n_thorough=2500, shards_quick=4,
            must_hit=["same_family_both_flags", "family_first_asked_without_self", "rna_spelling_in_history"],
            rule="random histories of 1..10 table questions (codon synonyms/translation/start/stop in 1..3 amino-acid families, frame shift/phase, strand algebra, "
                 "reverse complement), each on pristine process state, each followed by the whole-partition sweep"),
    ],
    rule="Finite domains enumerated completely; every element of each domain is one distinct non-trivial case "
         "(distinct = canonical JSON of the element).",
    assumptions=[
        "Biopython's CodonTable (NCBI tables 1 and 11) and Bio.Seq.complement are the reference",
        "IUPAC expansion/complement tables typed into checks/c15.py from the IUPAC definition",
        "complement(complement(U)) is accepted as T or U: the library maps U->A and A->T, so an involution on U is impossible in a single DNA table",
    ],
)
