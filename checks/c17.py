"""C17 — NCBI feature-table export lists the model's genes 5'->3', partial marks correct."""
import io
import json
import warnings

from hypothesis import strategies as st

import harness.compat  # noqa: F401
from Bio.Data import CodonTable
from harness import refmodel as rm
from harness import strategies as S
from harness.build import mkcollection, chrom_parent, chunk_parent, as_container
from harness.core import Leg, Prop
from harness.readers import read_tbl, FormatError
from inscripta.biocantor.exc import BioCantorException
from inscripta.biocantor.gene.codon import TranslationTable
from inscripta.biocantor.io.genbank.constants import GenbankFlavor
from inscripta.biocantor.io.ncbi.tbl_writer import collection_to_tbl

_T1 = CodonTable.unambiguous_dna_by_id[1]
_T11 = CodonTable.unambiguous_dna_by_id[11]
STARTS = {"DEFAULT": {"ATG"}, "STANDARD": set(_T1.start_codons), "PROKARYOTE": set(_T11.start_codons)}
STOPS = set(_T1.stop_codons)


def merged(blocks):
    return rm.blocks_of_set(rm.posset(blocks))


def tbl_intervals(blocks, strand):
    """1-based inclusive intervals, 5'->3'"""
    bl = merged(blocks)
    iv = [(s + 1, e) for s, e in bl]
    if strand == "-":
        iv = [(e, s) for s, e in iv][::-1]
    return iv


def export(spec, seed=None, ctx=None, **kw):
    # one table may hold several sequences: further collections (spec["more"]) are written after the first one
    # the first collection may sit on a sequence chunk that contains all its members (the result of a position query): a feature
    # table is written in chromosome coordinates, so it is the table of the same collection on the whole chromosome
    ch_ = spec.get("chunk")
    colls = [mkcollection(spec["obj"], chunk_parent(spec["genome"], ch_[0], ch_[1], strand=spec.get("chunk_strand", "+")) if ch_ else chrom_parent(spec["genome"]))]
    for k_, m_ in enumerate(spec.get("more") or []):
        nm_ = m_.get("name", "chr%d" % (k_ + 2))
        colls.append(mkcollection(m_["obj"], chrom_parent(m_["genome"], name=nm_), sequence_name=nm_))
    buf = io.StringIO()
    with warnings.catch_warnings():
        warnings.simplefilter("ignore")
        args = dict(translation_table=TranslationTable[spec["table"]], locus_tag_prefix=spec.get("prefix"),
                    genbank_flavor=GenbankFlavor[spec["flavor"]], locus_tag_jump_size=spec["jump"], submitter_lab_name=spec.get("lab"),
                    random_seed=spec["seed"] if seed is None else seed, **kw)
        collection_to_tbl(as_container(colls, spec.get("container", "list")), buf, **args)
        if ctx is not None:
            # the same collection OBJECT written again with the same seed gives the same table
            buf2 = io.StringIO()
            collection_to_tbl(as_container(colls, spec.get("container", "list")), buf2, **args)
            ctx.true("second_export_same_file", buf2.getvalue() == buf.getvalue(), {"first": buf.getvalue()[:300], "second": buf2.getvalue()[:300]})
    return buf.getvalue()


_other_seed = {}


def zygote_entry(req):
    return {"text": export(req["spec"])}


def export_under_hash_seed(spec, hs):
    """the same export in an interpreter started with another PYTHONHASHSEED (fresh child per request)"""
    from harness.zygote import Client
    if hs not in _other_seed:
        _other_seed[hs] = Client("checks.c17", env={"PYTHONHASHSEED": str(hs)})
    return _other_seed[hs].ask({"spec": spec})["text"]


def cds_facts(t, g, table):
    """(first codon is start, ends in frame on a stop, has in-frame stop, codon_start) from the FrameModel over the merged CDS"""
    strand = t["strand"]
    blocks = merged(t["cds"])
    off = t["frames"][0] if strand == "+" else t["frames"][-1]
    frames = rm.frames_from_offset([list(b) for b in blocks], strand, off)
    codons, deg = rm.frame_walk([list(b) for b in blocks], strand, frames)
    seqs = [rm.seq_image(g, c, strand).upper() for c in codons]
    total = sum(e - s for s, e in blocks)
    in_frame_end = (total - off) % 3 == 0
    first_is_start = bool(seqs) and seqs[0] in STARTS[table]
    ends_on_stop = in_frame_end and bool(seqs) and seqs[-1] in STOPS
    in_frame_stop = any(c in STOPS for c in seqs[:-1])
    return first_is_start, ends_on_stop, in_frame_stop, off + 1, seqs, deg


def check_tbl(spec, ctx):
    parts = [(spec["obj"], spec["genome"])] + [(m_["obj"], m_["genome"]) for m_ in (spec.get("more") or [])]
    genes = [gn for o_, _ in parts for gn in o_["genes"]]
    if len(parts) > 1:
        ctx.label("several_sequences")
        if sum(1 for o_, _ in parts if o_["genes"]) > 1:
            ctx.nt("several_sequences_with_genes")
    if spec["seed"] == 0:
        ctx.label("seed0")
    if spec.get("chunk"):
        ctx.label("collection_on_chunk")
        if spec["chunk"][0] > 0:
            ctx.label("collection_on_chunk_with_offset")
        if spec.get("chunk_strand") == "-":
            ctx.label("collection_on_minus_chunk")
    if any(t.get("frameshift") for gn in genes for t in gn["transcripts"]):
        # a feature table has no per-exon frames: the CDS is written as read contiguously from its 5' frame, and the partial marks
        # and the pseudo flag describe that reading
        ctx.label("frames_model_a_frameshift")
    try:
        text = export(spec, ctx=ctx)
    except BioCantorException as e:
        mixed = any(any("cds" in t for t in gn["transcripts"]) and not all("cds" in t for t in gn["transcripts"]) for gn in genes)
        ctx.true("export_refused", mixed, repr(e)[:120])
        ctx.refuse("mixed_gene_refused")
        return
    try:
        recs = read_tbl(text)
    except FormatError as e:
        ctx.fail("tbl_unparseable", repr(e)[:200])
        return
    if not ctx.eq("one_header_per_sequence", len(recs), len(parts)):
        return
    tags = []
    for k_, ((o, g), rec_) in enumerate(zip(parts, recs)):
        ctx.eq("header_names_sequence", rec_["header"], "chr1" if k_ == 0 else spec["more"][k_ - 1].get("name", "chr%d" % (k_ + 1)))
        _check_one_sequence(spec, ctx, o, g, rec_["features"], tags)
    # locus tags unique, increasing by the requested step - over the whole table
    ctx.eq("locus_tags_unique", len(set(tags)), len(tags))
    nums = []
    for tg in tags:
        if tg is None or "_" not in tg:
            ctx.fail("locus_tag_format", tg)
            continue
        pre, num = tg.rsplit("_", 1)
        if spec.get("prefix"):
            ctx.eq("locus_tag_prefix", pre, spec["prefix"])
        nums.append(int(num))
    ctx.eq("locus_tags_step", nums, [spec["jump"] * (i + 1) for i in range(len(nums))])
    # reproducible for a fixed seed
    text2 = export(spec)
    ctx.true("reproducible_for_fixed_seed", text2 == text, {"seed": spec["seed"], "diff": [(a, b) for a, b in zip(text.split("\n"), text2.split("\n")) if a != b][:2]})
    # ... also in another interpreter: sets of qualifier values iterate in an order that depends on PYTHONHASHSEED
    multi = any(len(v) >= 2 for g_ in genes for t in g_["transcripts"] for v in (t.get("qualifiers") or {}).values())
    if multi or spec.get("hashseed_always"):
        hs = 1 + (len(text) % 3)
        text3 = export_under_hash_seed(spec, hs)
        ctx.label("exported_under_another_hash_seed")
        ctx.true("reproducible_across_hash_seeds", text3 == text, {"hash_seed": hs, "diff": [(a, b) for a, b in zip(text.split("\n"), text3.split("\n")) if a != b][:2]})


def _check_one_sequence(spec, ctx, o, g, feats, tags):
    genes = sorted(o["genes"], key=lambda gn: min(t["exons"][0][0] for t in gn["transcripts"]))
    # expected records
    exp = []
    for gn in genes:
        coding = any("cds" in t for t in gn["transcripts"])
        strands = [t["strand"] for t in gn["transcripts"]]
        gstrand = max(strands, key=strands.count)
        lo, hi = min(t["exons"][0][0] for t in gn["transcripts"]), max(t["exons"][-1][1] for t in gn["transcripts"])
        pseudo = False
        if coding:
            pseudo = any(cds_facts(t, g, spec["table"])[2] for t in gn["transcripts"] if "cds" in t)
        exp.append(("gene", tbl_intervals([[lo, hi]], gstrand), False, False, pseudo, None, gn))
        for t in gn["transcripts"]:
            if coding:
                fs, es, ifs, cstart, seqs, deg = cds_facts(t, g, spec["table"])
                p5, p3 = not fs, not es
                if spec["flavor"] == "EUKARYOTIC":
                    exp.append(("mRNA", tbl_intervals(t["exons"], t["strand"]), p5, p3, pseudo, None, t))
                exp.append(("CDS", tbl_intervals(t["cds"], t["strand"]), p5, p3, pseudo, cstart, t))
            else:
                ftype = {"rRNA": "rRNA", "tRNA": "tRNA"}.get(gn["gene_type"], "ncRNA")
                exp.append((ftype, tbl_intervals(t["exons"], t["strand"]), False, False, False, None, t))
    if not ctx.eq("record_types", [f["key"] for f in feats], [e[0] for e in exp]):
        return
    for f, (key, iv, p5, p3, pseudo, cstart, src) in zip(feats, exp):
        got_iv = [(a, b) for a, b, _, _ in f["intervals"]]
        ctx.eq("intervals:" + key, got_iv, iv)
        marks5 = f["intervals"][0][2]
        marks3 = f["intervals"][-1][3]
        inner = [m for i, (_, _, m5, m3) in enumerate(f["intervals"]) for m in ((m5 if i > 0 else ""), (m3 if i < len(f["intervals"]) - 1 else "")) if m]
        ctx.true("no_partial_marks_inside", not inner, f["intervals"])
        ctx.eq("partial5:" + key, marks5, "<" if p5 else "")
        ctx.eq("partial3:" + key, marks3, ">" if p3 else "")
        if p5:
            ctx.label("5p_partial")
        if key == "CDS":
            fs, es, ifs, cs_, seqs, deg = cds_facts(src, g, spec["table"])
            total = sum(e - s for s, e in merged(src["cds"]))
            if p3 and (total - (cs_ - 1)) % 3 != 0:
                ctx.label("3p_partial_frame")
            if p3 and (total - (cs_ - 1)) % 3 == 0:
                ctx.label("3p_partial_nostop")
            if not p5 and not p3:
                ctx.label("complete_cds")
            if seqs and seqs[0] in STARTS["PROKARYOTE"] - {"ATG"}:
                ctx.label("alt_start")
            if len(merged(src["cds"])) < len(src["cds"]):
                ctx.label("adjacent_cds_merged")
        if src.get("strand") == "-" and len(iv) > 1:
            ctx.nt("minus_multi_exon")
        q = {}
        for k, v in f["qualifiers"]:
            q.setdefault(k, []).append(v)
        ctx.eq("pseudo:" + key, "pseudo" in q, pseudo)
        if pseudo:
            ctx.nt("pseudo")
        if p5 or p3:
            ctx.nt()
        if key == "CDS":
            ctx.eq("codon_start", q.get("codon_start"), [str(cstart)])
        else:
            ctx.true("codon_start_only_on_cds", "codon_start" not in q)
        if key == "gene":
            tags.append(q.get("locus_tag", [None])[0])
        else:
            ctx.eq("child_locus_tag:" + key, q.get("locus_tag", [None])[0], tags[-1] if tags else None)


# ------------------------------------------------------------------------------------ strategy


def plant(genome, positions, strand, codon):
    g = list(genome)
    s = codon if strand == "+" else rm.revcomp(codon)[::-1]
    # positions are in 5'->3' order; on minus the genome base is the complement
    for p, ch in zip(positions, codon):
        g[p] = ch if strand == "+" else rm.comp_char(ch)
    return "".join(g)


@st.composite
def strat_tbl(draw, tier="quick"):
    sp = draw(_one_collection())
    sp.update({"flavor": draw(st.sampled_from(["EUKARYOTIC", "PROKARYOTIC"])),
               "table": draw(st.sampled_from(["DEFAULT", "STANDARD", "PROKARYOTE"])), "jump": draw(st.sampled_from([1, 5, 10])),
               "seed": draw(st.sampled_from([0, 0, 1, 7, 123456])), "prefix": draw(st.one_of(st.none(), st.just("PFX"))), "lab": draw(st.one_of(st.none(), st.just("LAB")))})
    sp["container"] = draw(st.sampled_from(["list", "list", "tuple", "generator", "iterator"]))
    if draw(st.integers(0, 3)) == 0:
        lo_ = min(t["exons"][0][0] for gn in sp["obj"]["genes"] for t in gn["transcripts"])
        hi_ = max(t["exons"][-1][1] for gn in sp["obj"]["genes"] for t in gn["transcripts"])
        sp["chunk"] = [draw(st.integers(0, lo_)), draw(st.integers(hi_, len(sp["genome"])))]
        sp["chunk_strand"] = draw(st.sampled_from(["+", "+", "-"]))   # the chunk may be the reverse complement of its window
    if draw(st.integers(0, 3)) == 0:
        # a table of several sequences; a later sequence may also have no gene at all
        sp["more"] = [draw(_one_collection(min_genes=draw(st.sampled_from([0, 1, 1])), tag="s%d" % k)) for k in range(draw(st.integers(1, 2)))]
        if len(sp["more"]) == 2 and draw(st.booleans()):
            # the third collection is on the first sequence again (chr1, chr2, chr1): every collection still gets its own header
            sp["more"][1]["name"] = "chr1"
    return sp


@st.composite
def _one_collection(draw, min_genes=1, tag=""):
    ng = draw(st.integers(min_genes, 3))
    genes = []
    cursor = draw(st.integers(0, 3))
    plants = []
    for i in range(ng):
        strand = draw(st.sampled_from(["+", "-"]))
        coding = draw(st.sampled_from([True, True, True, False]))
        # one to three isoforms per gene (all coding or all non-coding, the writer's documented assumption); the order of the
        # isoforms is free, so the primary one (longest CDS) is not always the first nor the one with the in-frame stop
        gtype = "protein_coding" if coding else draw(st.sampled_from(["ncRNA", "tRNA", "rRNA", "misc_RNA", "lncRNA"]))
        txs, seen_ = [], set()
        for j in range(draw(st.sampled_from([1, 1, 2, 3]))):
            t = draw(S.transcript_spec(max_exons=3, max_len=12, strand=strand, coding=coding, zero_gap_cds=True, frameshift_prob=5, start_min=cursor, start_max=2))
            key_ = json.dumps([t["exons"], t.get("cds")])
            if key_ in seen_:
                continue
            seen_.add(key_)
            t["transcript_id"] = (draw(st.one_of(st.none(), st.just("tx%d_%d" % (i, j)))) if coding and j == 0 else "tx%d_%d" % (i, j))
            t["is_primary_tx"] = None
            t["qualifiers"] = draw(st.sampled_from([{}, {}, {"product": ["my_product"]}, {"db_xref": ["GeneID:1"]}, {"gene_synonym": ["syn1", "syn2"]}, {"db_xref": ["GeneID:1", "UniProt:P1", "taxon:9606", "X:a"], "gene_synonym": ["alpha", "beta", "gamma", "delta"]}]))
            t["transcript_type"] = gtype
            txs.append(t)
            if coding:
                plants.append((t, draw(st.sampled_from(["ATG", "ATG", "ATG", "TTG", "GTG", None, None])), draw(st.sampled_from(["TAA", "TGA", "TAG", None])),
                               draw(st.sampled_from([None, None, None, "TAA"])), draw(st.integers(0, 50))))
        genes.append({"transcripts": txs, "gene_id": None, "gene_symbol": draw(st.one_of(st.none(), st.just("GENE%s%d" % (tag, i)))), "gene_type": gtype,
                      "locus_tag": draw(st.one_of(st.none(), st.just("OLD_%d" % i))), "qualifiers": {}})
        t = max(txs, key=lambda t_: t_["exons"][-1][1])
        cursor = t["exons"][-1][1] + draw(st.integers(1, 6))
    n = cursor + draw(st.integers(1, 4))
    g = draw(S.dna(n, n))
    # plant start / stop / in-frame stop codons so that every class is frequent
    for t, startc, stopc, midc, midk in plants:
        blocks = merged(t["cds"])
        off = t["frames"][0] if t["strand"] == "+" else t["frames"][-1]
        frames = rm.frames_from_offset([list(b) for b in blocks], t["strand"], off)
        codons, _ = rm.frame_walk([list(b) for b in blocks], t["strand"], frames)
        if not codons:
            continue
        if midc and len(codons) > 2:
            g = plant(g, codons[1 + midk % (len(codons) - 2)], t["strand"], midc)
        if startc:
            g = plant(g, codons[0], t["strand"], startc)
        if stopc and len(codons) > 1:
            g = plant(g, codons[-1], t["strand"], stopc)
    return {"obj": {"genes": genes, "feature_collections": [], "name": None}, "genome": g}


PROP = Prop(
    pid="C17",
    legs=[
        Leg("tbl", check_tbl, strategy=strat_tbl, n_quick=450, n_thorough=6000, shards_quick=4,
            must_hit=["5p_partial", "3p_partial_frame", "3p_partial_nostop", "pseudo", "adjacent_cds_merged", "minus_multi_exon", "seed0", "complete_cds", "alt_start", "exported_under_another_hash_seed", "several_sequences_with_genes", "collection_on_chunk_with_offset", "collection_on_minus_chunk"],
            rule="1..3 collections (sequences) per table, each with sequence on a whole chromosome, 1..3 genes (1..3 isoforms each; coding with start offsets 0/1/2 and 0-bp-gap CDS blocks, or ncRNA/tRNA/rRNA/misc_RNA/lncRNA), sequences with planted start / stop / in-frame stop codons, x flavour x translation table x locus_tag_jump_size x random_seed (incl. 0) x optional prefix/lab; the text is read by an independent 5-column reader"),
    ],
    rule="Oracle: independent TBL reader; merged source blocks as 1-based inclusive 5'->3' intervals; FrameModel + codon tables for partial marks, codon_start and pseudo. "
         "Non-trivial: minus multi-exon, or a partial mark, or pseudo.",
    assumptions=["genes have 1..3 isoforms that are all coding or all non-coding (the writer documents that assumption)", "ACGT sequences only"],
)
