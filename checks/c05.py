"""C05 — CDS codons, frame bookkeeping and translation follow one reading-frame model."""
import itertools

from hypothesis import strategies as st

import harness.compat  # noqa: F401
from Bio.Data import CodonTable
from harness import refmodel as rm
from harness import strategies as S
from harness.build import mkcds, chrom_parent, mkloc_blocks, STRAND
from harness.core import Leg, Prop
from inscripta.biocantor.exc import BioCantorException, EmptyLocationException, LocationOverlapException, InvalidPositionException
from inscripta.biocantor.gene.cds import CDSInterval
from inscripta.biocantor.gene.cds_frame import CDSFrame
from inscripta.biocantor.gene.codon import TranslationTable
from inscripta.biocantor.sequence import Sequence

_T1 = CodonTable.unambiguous_dna_by_id[1]
_T11 = CodonTable.unambiguous_dna_by_id[11]
STARTS = {"DEFAULT": {"ATG"}, "STANDARD": set(_T1.start_codons), "PROKARYOTE": set(_T11.start_codons)}
IUPAC = {"A": "A", "C": "C", "G": "G", "T": "T", "N": "ACGT", "R": "AG", "Y": "CT"}


def std_aa(codon):
    if codon in _T1.stop_codons:
        return "*"
    return _T1.forward_table[codon]


def aa_options(codon):
    """amino acids acceptable for a (possibly ambiguous) codon in non-strict mode"""
    exp = {std_aa("".join(p)) for p in itertools.product(*(IUPAC[c] for c in codon))}
    if len(exp) == 1 and set(codon) <= set("ACGT"):
        return exp
    if len(exp) == 1:
        return exp | {"X"}
    return {"X"}


def model_translate(codon_seqs, table, truncate, strict):
    """returns list of acceptable-set per residue, or 'ValueError'"""
    out = []
    n = len(codon_seqs)
    for i, c in enumerate(codon_seqs):
        if i == 0 and c in STARTS[table]:
            out.append({"M"})
        else:
            if strict and not set(c) <= set("ACGT"):
                return "ValueError"
            out.append(aa_options(c))
        if truncate and set(c) <= set("ACGT") and std_aa(c) == "*" and i != n - 1:
            break
    return out


def codon_triples(locs):
    return [tuple(rm.loc_positions(l)) for l in locs]


def cds_labels(ctx, spec):
    k = len(spec["blocks"])
    bl = spec["blocks"]
    if spec["strand"] == "-" and k >= 3:
        ctx.label("minus&k>=3")
    if spec["offset"] == 1:
        ctx.label("offset1")
    if spec["offset"] == 2:
        ctx.label("offset2")
    if any(bl[i][1] == bl[i + 1][0] for i in range(k - 1)):
        ctx.label("zero_gap")
    if spec.get("frameshift"):
        ctx.label("frameshift")
    if (k >= 2 and any((b[1] - b[0]) % 3 for b in bl)) or spec["offset"] or spec["strand"] == "-" or spec.get("frameshift"):
        ctx.nt()


def pending_longer_than_previous_block(spec):
    """F5 class: at a resync, the dropped incomplete codon started before the immediately preceding retained block"""
    bl, frames, strand = spec["blocks"], spec["frames"], spec["strand"]
    order = list(range(len(bl)))
    if strand == "-":
        order.reverse()
    pending = 0
    prev_kept = None
    for idx in order:
        L = bl[idx][1] - bl[idx][0]
        f = frames[idx]
        if f != pending:
            if prev_kept is not None and pending > prev_kept:
                return True
            pending = 0
            L = max(0, L - f)
            if L == 0:
                continue
        prev_kept = L
        pending = (pending + L) % 3
    return False


def check_cds(spec, ctx):
    cds_labels(ctx, spec)
    g = spec["genome"]
    bl, strand, frames = spec["blocks"], spec["strand"], spec["frames"]
    model, degenerate = rm.frame_walk(bl, strand, frames)
    mseqs = [rm.seq_image(g, c, strand).upper() for c in model]
    parent = chrom_parent(g)
    ambiguous = not set(g) <= set("ACGT")
    if degenerate:
        ctx.label("degenerate_skip")
    if not model:
        ctx.label("cds_no_complete_codon")

    def fresh():
        return mkcds(spec, parent)

    # (1) codon locations
    cds = fresh()
    try:
        got = codon_triples(cds.chromosome_codon_locations)
    except (BioCantorException, ValueError) as e:
        if degenerate or not model:
            ctx.refuse("degenerate_refused")
            return
        ctx.fail("codon_locations_refused", repr(e)[:160])
        return
    if degenerate:
        # only require the three views to agree with each other
        model = got
        mseqs = [rm.seq_image(g, c, strand).upper() for c in model]
    ctx.eq("codon_locations", got, model)
    ctx.eq("num_codons", cds.num_codons, len(model))
    # the same CDS annotated with GFF3 phases instead of frames (phase = bases to skip to the next codon start: 0 -> 0, frame 1 -> 2,
    # frame 2 -> 1) is the same CDS
    try:
        from inscripta.biocantor.gene.cds_frame import CDSPhase as _Ph
        by_phase = CDSInterval([b[0] for b in bl], [b[1] for b in bl], STRAND[strand], [_Ph({0: 0, 1: 2, 2: 1}[f]) for f in frames], parent_or_seq_chunk_parent=parent)
        ctx.eq("codon_locations_from_phases", codon_triples(by_phase.chromosome_codon_locations), model)
        ctx.eq("frames_from_phases", [f.value for f in by_phase.frames], list(frames))
    except (BioCantorException, ValueError) as e:
        ctx.fail("cds_from_phases_refused", repr(e)[:120])
    ctx.true("codon_location_strand", all(rm.loc_strand(l) == strand for l in cds.chromosome_codon_locations))
    # (2) fast path on a fresh object
    cds2 = fresh()
    seq = cds2.extract_sequence()
    ctx.eq("extract_sequence_fresh", str(seq).upper(), "".join(mseqs))
    ctx.eq("extract_sequence_multiple_of_three", len(str(seq)) % 3, 0)
    # (3) after the codon cache is populated (value only; the type question is C10's)
    cds3 = fresh()
    crl = codon_triples(cds3.chunk_relative_codon_locations)
    ctx.eq("chunk_relative_codons_on_chromosome_parent", crl, model)
    ctx.eq("extract_sequence_after_codon_cache", str(cds3.extract_sequence()).upper(), "".join(mseqs))
    ctx.eq("num_chunk_relative_codons", cds3.num_chunk_relative_codons, len(model))
    cod = [str(c) for c in fresh().scan_codons()]
    ctx.eq("scan_codons", cod, mseqs)
    # (3b) merged forms: the blocks are merged, the start offset is kept, and the frames generated for the merged location
    # describe ONE uninterrupted reading frame (documented: internal frameshifts are lost)
    if not degenerate and model:
        sb = rm.sorted_blocks(bl)

        def merge(keep_overlaps):
            out = []
            for s_, e_ in sb:
                if out and (s_ == out[-1][1] if keep_overlaps else s_ <= out[-1][1]):
                    out[-1][1] = max(out[-1][1], e_)
                else:
                    out.append([s_, e_])
            return out
        first_frame = frames[0] if strand == "+" else frames[-1]
        # optimize_blocks documents that overlapping blocks (the -1 frameshift model) are preserved and only touching ones merged;
        # optimize_and_combine_blocks merges both
        for name, merged in (("optimize_blocks", merge(True)), ("optimize_and_combine_blocks", merge(False))):
            first_len = (merged[0][1] - merged[0][0]) if strand == "+" else (merged[-1][1] - merged[-1][0])
            if not (first_len > first_frame or len(merged) == 1):
                continue
            expf = rm.frames_from_offset(merged, strand, first_frame)
            try:
                mc = getattr(fresh(), name)()
            except (BioCantorException, ValueError) as e:
                ctx.fail("merged_form_raises:" + name, repr(e)[:120])
                continue
            ctx.eq("merged_form_blocks:" + name, [list(b) for b in rm.loc_blocks(mc.chromosome_location)], merged)
            ctx.eq("merged_form_frames:" + name, [f.value for f in mc.frames], expf)
            if len(merged) < len(sb):
                ctx.label("merged_form_lost_a_block_boundary")
    # (4) translation
    for table in ("DEFAULT", "STANDARD", "PROKARYOTE"):
        for truncate in (False, True):
            for strict in (True, False):
                exp = model_translate(mseqs, table, truncate, strict)
                c4 = fresh()
                try:
                    prot = c4.translate(truncate_at_in_frame_stop=truncate, translation_table=TranslationTable[table], strict=strict)
                except ValueError as e:
                    ctx.true("translate_refused[%s,%d,%d]" % (table, truncate, strict), exp == "ValueError", repr(e)[:100])
                    continue
                if exp == "ValueError":
                    ctx.fail("translate_strict_accepted_ambiguous[%s]" % table, str(prot))
                    continue
                p = str(prot)
                ok = len(p) == len(exp) and all(ch in opts for ch, opts in zip(p, exp))
                ctx.true("translate[%s,trunc=%d,strict=%d]" % (table, truncate, strict), ok, {"got": p, "expected": ["".join(sorted(o)) for o in exp]})
                ctx.true("translate_type", isinstance(prot, Sequence), type(prot).__name__)
    # (4b) the same twelve questions asked of ONE object, in an order that is part of the case: the protein is a function of
    # the codons and the arguments, not of which table / flags were asked first
    combos = [(t_, tr_, s_) for t_ in ("DEFAULT", "STANDARD", "PROKARYOTE") for tr_ in (False, True) for s_ in (True, False)]
    order = spec.get("translate_order") or list(range(len(combos)))[::-1]
    shared = fresh()
    if spec.get("predicates_first"):
        # the stop / start predicates asked of the same object before any translation
        for pred in ("has_in_frame_stop", "has_valid_stop", "has_canonical_start_codon", "num_codons"):
            try:
                getattr(shared, pred)
            except (BioCantorException, ValueError):
                pass
        ctx.label("predicates_before_translation")
    for i_ in order:
        table, truncate, strict = combos[i_ % len(combos)]
        exp = model_translate(mseqs, table, truncate, strict)
        try:
            p = str(shared.translate(truncate_at_in_frame_stop=truncate, translation_table=TranslationTable[table], strict=strict))
        except ValueError as e:
            ctx.true("translate_same_object_refused[%s,%d,%d]" % (table, truncate, strict), exp == "ValueError", repr(e)[:100])
            continue
        if exp == "ValueError":
            ctx.fail("translate_same_object_strict_accepted_ambiguous[%s]" % table, p)
            continue
        ok = len(p) == len(exp) and all(ch in opts for ch, opts in zip(p, exp))
        ctx.true("translate_same_object[%s,trunc=%d,strict=%d]" % (table, truncate, strict), ok,
                 {"got": p, "expected": ["".join(sorted(o)) for o in exp], "order": order})
    if mseqs:
        if mseqs[0] in STARTS["STANDARD"] - {"ATG"}:
            ctx.label("alt_start_codon")
        ctx.eq("has_canonical_start_codon", fresh().has_canonical_start_codon, mseqs[0] == "ATG")
        for table in STARTS:
            ctx.eq("has_start_codon_in_table:" + table, fresh().has_start_codon_in_specific_translation_table(TranslationTable[table]), mseqs[0] in STARTS[table])
        ctx.eq("has_valid_stop", fresh().has_valid_stop, mseqs[-1] in _T1.stop_codons)
        if not ambiguous:
            aas = [std_aa(c) for c in mseqs]
            ctx.eq("has_in_frame_stop", fresh().has_in_frame_stop, "*" in aas[:-1])
            if "*" in aas[:-1]:
                ctx.label("in_frame_stop")
    # (5) windows
    lo, hi = bl[0][0], bl[-1][1]
    overlapping = any(bl[i][1] > bl[i + 1][0] for i in range(len(bl) - 1))
    if overlapping:
        ctx.nt("overlapping_blocks")
    all_pos = set(p for c in model for p in c)
    for ws, we in spec["windows"]:
        for expand in (False, True):
            c5 = fresh()
            wlo = lo if ws is None else ws
            whi = hi if we is None else we
            if ws is None and we is None:
                exp_codons = model
            elif expand:
                exp_codons = [c for c in model if any(wlo <= p < whi for p in c)]
            else:
                exp_codons = [c for c in model if all(wlo <= p < whi for p in c)]
            # a window that clips two overlapping blocks to remainders tying on start or end: the order of such blocks is not
            # something a Location represents (C01 F1/F25) - such windows are not compared
            elo, ehi = wlo, whi
            if expand and exp_codons:
                # the window is widened to whole codons before it clips the blocks
                elo = min(elo, min(p for c in exp_codons for p in c))
                ehi = max(ehi, max(p for c in exp_codons for p in c) + 1)
            cl_ = [(max(b[0], elo), min(b[1], ehi)) for b in rm.cleaned_blocks(bl, strand, frames) if max(b[0], elo) < min(b[1], ehi)]
            if overlapping and (len({a for a, _ in cl_}) < len(cl_) or len({b for _, b in cl_}) < len(cl_)):
                ctx.label("window_clips_overlap_to_a_tie(skipped)")
                continue
            cut = any(0 < sum(1 for p in c if wlo <= p < whi) < 3 for c in model)
            if cut:
                ctx.label("window_cuts_codon")
            if any(wlo == b[0] or whi == b[1] for b in bl[1:-1] or bl):
                ctx.label("window_at_exon_boundary")
            if len(bl) == 1 and spec["offset"] and wlo > lo:
                ctx.label("single_exon&offset!=0&window")
            try:
                gotw = codon_triples(c5.scan_chromosome_codon_locations(ws, we, expand))
                gotw2 = codon_triples(fresh().scan_chunk_relative_codon_locations(ws, we, expand))
            except (EmptyLocationException, LocationOverlapException, InvalidPositionException) as e:
                # documented refusal is acceptable only when the window contains no base of any codon
                # (or reaches beyond the parent sequence)
                touches = any(wlo <= p < whi for p in all_pos) and whi <= len(g) and not degenerate
                ctx.true("window_refused_but_touching", not touches, {"window": [ws, we], "expand": expand, "exc": repr(e)[:80]})
                ctx.refuse("window_outside")
                continue
            clause = "window_codons[expand=%d]" % expand
            if wlo >= whi:
                ctx.label("zero_length_window")
            ctx.eq(clause, gotw, exp_codons, extra={"window": [ws, we]})
            ctx.eq("window_codons_chunk_relative_view", gotw2, gotw, extra={"window": [ws, we]})


def check_construct_frames(spec, ctx):
    bl, strand, off = spec["blocks"], spec["strand"], spec["offset"]
    ctx.nt("minus" if strand == "-" else "plus", "offset%d" % off)
    loc = mkloc_blocks(bl, strand)
    got = [f.value for f in CDSInterval.construct_frames_from_location(loc, CDSFrame(off))]
    order = list(range(len(bl)))
    if strand == "-":
        order.reverse()
    first_len = bl[order[0]][1] - bl[order[0]][0]
    exp = rm.frames_from_offset(bl, strand, off)
    if first_len <= off and len(bl) > 1:
        ctx.label("first_exon_not_longer_than_offset")
        # degenerate: only require that feeding the frames back does not crash
        return
    ctx.eq("construct_frames", got, exp)
    # one uninterrupted reading frame: the walk with these frames never re-synchronises after the start
    codons, deg = rm.frame_walk(bl, strand, got)
    total = sum(b[1] - b[0] for b in bl) - off
    ctx.eq("construct_frames_uninterrupted", len(codons), max(0, total // 3))
    # and the library agrees when the frames are fed back
    g = "ACGT" * (bl[-1][1] // 4 + 2)
    cds = CDSInterval([b[0] for b in bl], [b[1] for b in bl], STRAND[strand], [CDSFrame(f) for f in got], parent_or_seq_chunk_parent=chrom_parent(g))
    if total >= 3:
        ctx.eq("construct_frames_fed_back", codon_triples(cds.chromosome_codon_locations), codons)
    # frames handed out for this location stay what they were while frames are generated for its neighbours: the same layout
    # with the 5'-most block one or two bases longer / shorter, under every start offset (a family whose shifted block sizes
    # collide - "first block 5, offset 0" and "first block 6, offset 1" are the same walk after the skip)
    held = [(list(bl), off, CDSInterval.construct_frames_from_location(loc, CDSFrame(off)), exp)]
    i5 = order[0]
    for d_len in (-2, -1, 1, 2, 0):
        nb = [list(b) for b in bl]
        if strand == "-":
            nb[i5][0] -= d_len
        else:
            nb[i5][1] += d_len
        if nb[i5][1] - nb[i5][0] < 1 or nb[i5][0] < 0:
            continue
        if i5 + 1 < len(nb) and strand != "-" and nb[i5][1] > nb[i5 + 1][0]:
            continue
        if i5 > 0 and strand == "-" and nb[i5][0] < nb[i5 - 1][1]:
            continue
        for o2 in (0, 1, 2):
            if nb[i5][1] - nb[i5][0] <= o2 and len(nb) > 1:
                continue
            held.append((nb, o2, CDSInterval.construct_frames_from_location(mkloc_blocks(nb, strand), CDSFrame(o2)), rm.frames_from_offset(nb, strand, o2)))
    for nb, o2, fr, want in held:
        ctx.eq("construct_frames_held_results_unchanged", [f.value for f in fr], want, extra={"blocks": nb, "offset": o2})
    ctx.label("held_frames_%d" % len(held))


@st.composite
def strat_cds(draw, tier="quick"):
    big = tier == "thorough"
    sp = draw(S.cds_spec(max_k=5, max_len=12 if big else 9, overlap_prob=5))
    lo, hi = sp["blocks"][0][0], sp["blocks"][-1][1]
    edge = st.one_of(st.none(), st.integers(max(0, lo - 1), hi + 1))
    wins = draw(st.lists(st.tuples(edge, edge), min_size=2, max_size=5))
    out = []
    for a, b in wins:
        if a is not None and b is not None and a >= b:
            a, b = b, a + 1
        out.append([a, b])
    # boundary-biased windows: exon boundaries
    bl = sp["blocks"]
    if len(bl) > 1:
        i = draw(st.integers(0, len(bl) - 1))
        out.append([bl[i][0], None])
        out.append([None, bl[i][1]])
    sp["windows"] = out
    # (a list with repetitions rather than st.permutations: the latter is rejected by Hypothesis' byte-string provider, which
    # would starve the coverage-guided leg that drives this same strategy)
    sp["translate_order"] = draw(st.lists(st.integers(0, 11), min_size=6, max_size=16))
    sp["predicates_first"] = draw(st.booleans())
    return sp


@st.composite
def strat_frames(draw, tier="quick"):
    bl = draw(S.layout(max_k=6, allow_empty=False, allow_adjacent=True, allow_overlap=False, max_len=9))
    return {"blocks": bl, "strand": draw(st.sampled_from(["+", "-"])), "offset": draw(st.integers(0, 2))}


def pred_f5(spec, clause, detail):
    return bool(spec.get("frameshift")) and pending_longer_than_previous_block(spec)


def pred_f6(spec, clause, detail):
    """single-exon CDS with start frame != 0 whose window cuts the 5' end: exactly the first complete codon is lost"""
    import json as _json

    if len(spec["blocks"]) != 1 or spec["frames"][0] == 0:
        return False
    try:
        d = _json.loads(detail)
    except Exception:
        return False
    return d["got"] == d["expected"][1:]


def enum_single_exon(tier, shard, nshards):
    """single-exon CDS: full product offset x length mod 3 x strand x every window start/end"""
    i = 0
    for strand in "+-":
        for off in (0, 1, 2):
            for L in range(3, 13):
                i += 1
                if i % nshards != shard:
                    continue
                s = 4
                wins = [[a, b] for a in list(range(s - 1, s + L + 1)) + [None] for b in [None, s + L, s + L - 1, s + L - 2, s + L - 4]
                        if (a is None or b is None or a < b)]
                g = ("ATGGCCTTAGCTAAGTGA" * 3)[: s + L + 3]
                yield {"blocks": [[s, s + L]], "strand": strand, "offset": off, "frames": [off], "frameshift": False, "genome": g, "windows": wins}


EX = [
    {"blocks": [[0, 5], [7, 11], [12, 18]], "strand": "+", "offset": 1, "frames": [1, 1, 2], "frameshift": False, "genome": "AAACAAAAGGGTACCCAAAAAA", "windows": [[None, None], [3, None], [None, 16], [4, 15]]},
    {"blocks": [[0, 5], [7, 11], [12, 18]], "strand": "-", "offset": 2, "frames": [2, 1, 2], "frameshift": False, "genome": "AAACAAAAGGGTACCCAAAAAA", "windows": [[None, None], [3, None], [None, 16]]},
    {"blocks": [[2, 8], [8, 12]], "strand": "+", "offset": 0, "frames": [0, 1], "frameshift": True, "genome": "ACATGGCCTTAGCTAA", "windows": [[None, None]]},
]

PROP = Prop(
    pid="C05",
    legs=[
        Leg("cds", check_cds, strategy=strat_cds, examples=EX, n_quick=700, n_thorough=7000, shards_quick=4,
            must_hit=["minus&k>=3", "offset1", "offset2", "zero_gap", "frameshift", "overlapping_blocks", "window_cuts_codon", "window_at_exon_boundary",
                      "single_exon&offset!=0&window", "in_frame_stop", "cds_no_complete_codon"],
            rule="CDS from layouts (k<=5, 0-bp gaps) x strand x start offset 0/1/2, frames consistent or with one programmed frameshift, ACGT (1/6 with N/R/Y) genomes, 4..7 chromosome windows each with and without expansion; codon triples, three extraction paths, 12 translate configurations, predicates"),
        Leg("cds_coverage_guided", check_cds, fuzz_of="cds", n_quick=150, n_thorough=6000, shards_quick=2, shards_thorough=8,
            rule="coverage-guided: the `cds` leg's strategy driven by atheris/libFuzzer through hypothesis.fuzz_one_input with the `inscripta` package instrumented (fresh empty corpus, budget in runs; same check, clauses and known-finding predicates; failures collected unshrunk)"),
        Leg("single_exon_windows", check_cds, enumerate=enum_single_exon, exhaustive=True, shards_quick=8, shards_thorough=8,
            rule="single-exon CDS: offset x length 3..12 x strand x every window start (and 5 window ends), exhaustively"),
        Leg("construct_frames", check_construct_frames, strategy=strat_frames, n_quick=1500, n_thorough=15000,
            must_hit=["minus", "offset1", "offset2"],
            rule="construct_frames_from_location over layouts (k<=6) x strand x offset vs the frame model; frames fed back must give one uninterrupted reading frame"),
    ],
    rule="Oracle: FrameModel walk (harness/refmodel.py:frame_walk) + Bio.Data.CodonTable. Non-trivial: >=2 exons with a length not divisible by 3, "
         "or start offset != 0, or minus strand, or frameshift. Distinct = canonical JSON.",
    assumptions=[
        "degenerate corner (a skip applied to an exon not longer than the skip) is only checked for self-consistency",
        "a window that does not touch the CDS may be refused with EmptyLocationException/LocationOverlapException",
        "non-strict translation of an ambiguous codon may be the common amino acid of all expansions or X",
    ],
    predicates={"f5": pred_f5, "f6": pred_f6},
)
