"""C09 — collection queries return exactly the specified members, self-consistently."""
import json
from uuid import UUID

from hypothesis import strategies as st

import harness.compat  # noqa: F401
from harness import refmodel as rm
from harness import strategies as S
from harness.build import mkcollection, chrom_parent, chunk_parent
from harness.core import Leg, Prop
from inscripta.biocantor.exc import InvalidQueryError, BioCantorException
from inscripta.biocantor.parent import Parent

BIN = 2 ** 17


def nd(d):
    return json.loads(json.dumps(d, default=str, sort_keys=True))


def shift_spec(o, k):
    """add k to every coordinate of a collection spec"""
    o = json.loads(json.dumps(o))
    for g in o.get("genes", []):
        for t in g["transcripts"]:
            t["exons"] = [[s + k, e + k] for s, e in t["exons"]]
            if "cds" in t:
                t["cds"] = [[s + k, e + k] for s, e in t["cds"]]
    for c in o.get("feature_collections", []):
        for f in c["features"]:
            f["blocks"] = [[s + k, e + k] for s, e in f["blocks"]]
    for c in o.get("variant_collections", []):
        for v in c["variants"]:
            v["start"] += k
            v["end"] += k
    return o


def children_of(o):
    """(kind, index, start, end, coding, spec) for every child, as the oracle sees them"""
    out = []
    for i, g in enumerate(o.get("genes", [])):
        out.append(("gene", i, min(t["exons"][0][0] for t in g["transcripts"]), max(b_[1] for t in g["transcripts"] for b_ in t["exons"]),
                    any("cds" in t for t in g["transcripts"]), g))
    for i, c in enumerate(o.get("feature_collections", [])):
        out.append(("fc", i, min(f["blocks"][0][0] for f in c["features"]), max(b_[1] for f in c["features"] for b_ in f["blocks"]), False, c))
    for i, c in enumerate(o.get("variant_collections", [])):
        out.append(("vc", i, min(v["start"] for v in c["variants"]), max(v["end"] for v in c["variants"]), False, c))
    return out


def build(spec):
    o = spec["obj"]
    k = spec.get("shift", 0)
    if k:
        o = shift_spec(o, k)
    if spec.get("wide") is not None:
        # one member gets its last child moved two bins (2^18) downstream: the member then spans bins none of its children occupy
        o = json.loads(json.dumps(o))
        members = [g["transcripts"] for g in o.get("genes", []) if len(g["transcripts"]) >= 2] + [c["features"] for c in o.get("feature_collections", []) if len(c["features"]) >= 2]
        if members:
            kids_ = members[spec["wide"] % len(members)]
            c = kids_[-1]
            for key in ("exons", "cds", "blocks"):
                if key in c:
                    c[key] = [[a + 2 ** 18, b + 2 ** 18] for a, b in c[key]]
    g = spec.get("genome")
    mode = spec["parent"]
    if mode == "chrom":
        parent = chrom_parent(g)
    elif mode == "chunk":
        parent = chunk_parent(g, spec["chunk"][0], spec["chunk"][1], strand=spec.get("chunk_strand", "+"), idiom=spec.get("chunk_idiom", "api"))
    elif mode == "id_only":
        parent = Parent(id="chr1", sequence_type="chromosome")
    else:
        parent = None
    coll = mkcollection(o, parent)
    return o, coll, parent


def src_child(coll, kind, i):
    return {"gene": coll.genes, "fc": coll.feature_collections, "vc": coll.variant_collections}[kind][i]


_FLAGS = {"minus_chunk": False}


def check_result_members(ctx, clause, coll, res, expected, g, rs, re_, filtered=None):
    """expected: list of (kind, i, ...) that must be exactly the members of res"""
    exp_guids = sorted(str(src_child(coll, k, i).guid) for k, i, *_ in expected)
    got_guids = sorted(str(c.guid) for c in res.iter_children())
    if not ctx.eq(clause + ":members", got_guids, exp_guids):
        return
    by_guid = {str(c.guid): c for c in res.iter_children()}
    for k, i, cs_, ce_, coding, cspec in expected:
        src = src_child(coll, k, i)
        got = by_guid[str(src.guid)]
        if filtered is None:
            ctx.eq(clause + ":member_dict", nd(got.to_dict()), nd(src.to_dict()))
        ctx.eq(clause + ":member_coordinates", (got.start, got.end), (src.start, src.end) if filtered is None else (got.start, got.end))
        ctx.eq(clause + ":member_identifiers", sorted(map(str, got.identifiers)), sorted(map(str, src.identifiers)))
        if k == "vc":
            continue
        # grandchildren: same chromosome coordinates and identifiers; sequences restricted to the new bounds
        src_gc = {str(x.guid): x for x in src.iter_children()}
        for gc in got.iter_children():
            s = src_gc.get(str(gc.guid))
            if not ctx.true(clause + ":grandchild_known", s is not None, str(gc.guid)):
                continue
            ctx.eq(clause + ":grandchild_dict", nd(gc.to_dict()), nd(s.to_dict()))
            if g is not None and rs is not None:
                blocks = [(b.start, b.end) for b in s.chromosome_location.blocks]
                strand = s.chromosome_location.strand.to_symbol()
                pos = rm.positions(blocks, strand)
                inside = [p for p in pos if rs <= p < re_]
                crl = gc.chunk_relative_location
                if not inside:
                    ctx.true(clause + ":grandchild_outside_is_empty", crl.is_empty, repr(crl))
                else:
                    try:
                        seq = str(gc.get_spliced_sequence())
                    except BioCantorException as e:
                        ctx.fail(clause + ":grandchild_sequence_raises", repr(e)[:120])
                        continue
                    want_seq = rm.seq_image(g, inside, strand)
                    cl_ = [(max(a_, rs), min(b_, re_)) for a_, b_ in blocks if max(a_, rs) < min(b_, re_)]
                    if rm.has_self_overlap([list(b_) for b_ in blocks]):
                        ctx.label("member_with_nested_blocks")
                        if _FLAGS["minus_chunk"] or len({a_ for a_, _ in cl_}) < len(cl_) or len({b_ for _, b_ in cl_}) < len(cl_):
                            # the bounds clip two overlapping blocks to a tie, or the chunk is the reverse complement of its window (the
                            # mirrored blocks are re-sorted by start): their 5'->3' order is not representable (C01 F1/F25)
                            seq, want_seq = "".join(sorted(seq)), "".join(sorted(want_seq))
                    ctx.eq(clause + ":grandchild_sequence", seq, want_seq)
                    ctx.label("member_sequence_checked")
                    if len(inside) < len(pos):
                        ctx.label("member_sliced_by_bounds")


def check_position(spec, ctx):
    _FLAGS["minus_chunk"] = spec.get("chunk_strand") == "-"
    o, coll, parent = build(spec)
    g = spec.get("genome")
    kids = children_of(o)
    cstart, cend = coll.start, coll.end
    if spec["parent"] == "chunk":
        ctx.label("on_chunk")
    if o.get("start") is not None and g is not None:
        w_lo = spec["chunk"][0] if spec["parent"] == "chunk" else 0
        if o["start"] > w_lo:
            ctx.label("explicit_start_inside_sequence")
    if len(kids) >= 3 and len({k[0] for k in kids}) >= 2:
        ctx.nt()
    if o.get("variant_collections"):
        ctx.label("variants_present")
    for q in spec["queries"]:
        qs, qe = q["start"], q["end"]
        # resolve relative query encodings
        def resolve(v):
            if v is None:
                return None
            if isinstance(v, list):  # ["child", idx, which, delta]
                c = kids[v[1] % len(kids)]
                return max(0, (c[2] if v[2] == "start" else c[3]) + v[3])
            return v
        qs, qe = resolve(qs), resolve(qe)
        rs = cstart if qs is None else qs
        re_ = cend if qe is None else qe
        cw, co, ex = q["completely_within"], q["coding_only"], q["expand"]
        invalid = rs < 0 or rs > re_ or rs < cstart or re_ > cend or rs == re_
        try:
            res = coll.query_by_position(qs, qe, coding_only=co, completely_within=cw, expand_location_to_children=ex)
        except InvalidQueryError:
            if invalid:
                ctx.label("invalid_query_refused")
                continue
            # expansion beyond a sequence-bearing collection's bounds is documented to be refused
            exp_kept = [k for k in kids if (not co or k[4]) and max(rs, k[2]) < min(re_, k[3])]
            beyond = ex and not cw and parent is not None and g is not None and any(k[2] < cstart or k[3] > cend for k in exp_kept)
            if beyond:
                ctx.label("expansion_beyond_refused")
            ctx.true("valid_query_refused", beyond, {"query": [qs, qe], "bounds": [cstart, cend], "flags": [cw, co, ex]})
            continue
        if invalid:
            ctx.fail("invalid_query_accepted", {"query": [qs, qe], "bounds": [cstart, cend]})
            continue
        if ex and not cw and parent is not None and g is not None:
            # documented: an expansion that would leave the associated sequence must be refused, on either side
            kept_ = [k for k in kids if (not co or k[4]) and k[0] in ("gene", "fc") and max(rs, k[2]) < min(re_, k[3])]
            over = [k for k in kept_ if k[2] < cstart or k[3] > cend]
            if over:
                ctx.label("expansion_would_leave_the_sequence")
                ctx.fail("expansion_beyond_sequence_accepted", {"query": [qs, qe], "bounds": [cstart, cend], "member": [over[0][2], over[0][3]], "result_bounds": [res.start, res.end]})
                continue
        expected = []
        for k in kids:
            if co and not k[4]:
                continue
            if cw:
                keep = rs <= k[2] and k[3] <= re_
            else:
                keep = max(rs, k[2]) < min(re_, k[3])
            if keep:
                expected.append(k)
            if k[3] == re_:
                ctx.label("child_end==query_end")
            if k[2] == rs:
                ctx.label("child_start==query_start")
            if k[2] < rs < k[3] or k[2] < re_ < k[3]:
                ctx.label("child_straddles_query_edge")
        if rs // BIN != (re_ - 1) // BIN:
            ctx.label("bin_boundary_crossed")
        if spec.get("wide") is not None and not cw and any(k[3] - k[2] > 2 ** 17 and k[2] + 2 ** 16 < rs and re_ < k[3] - 2 ** 16 for k in expected):
            ctx.label("relaxed_query_between_children_of_a_wide_member")
        if rs > 0 and cw:
            ctx.label("bins_prefilter_active")
        if co and o.get("variant_collections"):
            ctx.label("coding_only&variants")
        ers, ere = rs, re_
        if ex and not cw:
            for k in expected:
                if k[0] in ("gene", "fc"):  # documented: genes / feature collections are what the range expands to
                    ers, ere = min(ers, k[2]), max(ere, k[3])
        clause = "position[cw=%d,co=%d,ex=%d]" % (cw, co, ex)
        ctx.eq(clause + ":bounds", (res.start, res.end), (ers, ere), extra={"query": [qs, qe]})
        ctx.eq(clause + ":completely_within_flag", res.completely_within, cw)
        ctx.eq(clause + ":name_id", (res.name, res.id, res.sequence_name), (coll.name, coll.id, coll.sequence_name))
        check_result_members(ctx, clause, coll, res, expected, g if parent is not None and spec["parent"] in ("chrom", "chunk") else None, ers, ere)
        if not expected:
            ctx.label("empty_result")


def check_ids(spec, ctx):
    _FLAGS["minus_chunk"] = spec.get("chunk_strand") == "-"
    o, coll, parent = build(spec)
    g = spec.get("genome") if spec["parent"] in ("chrom", "chunk") else None
    kids = children_of(o)
    ctx.nt()
    sel = spec["select"]
    # --- identifiers
    all_ids = []
    for k in kids:
        c = src_child(coll, k[0], k[1])
        all_ids.append(sorted(map(str, c.identifiers)))
    chosen = []
    for i, ids in enumerate(all_ids):
        if sel[i % len(sel)] and ids:
            chosen.append(ids[sel[i % len(sel)] % len(ids)])
    chosen_q = chosen + ["no_such_identifier"]
    res = coll.query_by_feature_identifiers(chosen_q)
    expected = [k for k, ids in zip(kids, all_ids) if set(ids) & set(chosen_q)]
    if len({k[0] for k in expected}) >= 2:
        ctx.label("ids_of_several_kinds")
    check_result_members(ctx, "identifiers", coll, res, expected, g, coll.start, coll.end)
    ctx.eq("identifiers:bounds", (res.start, res.end), (min([coll.start] + [k[2] for k in expected]), max([coll.end] + [k[3] for k in expected])))
    if chosen:
        res1 = coll.query_by_feature_identifiers(chosen[0])
        exp1 = [k for k, ids in zip(kids, all_ids) if chosen[0] in ids]
        check_result_members(ctx, "identifier_single", coll, res1, exp1, g, coll.start, coll.end)
    # --- GUIDs
    guids = [src_child(coll, k[0], k[1]).guid for k in kids]
    pick = [gu for i, gu in enumerate(guids) if sel[(i + 1) % len(sel)]]
    unknown = UUID("00000000-0000-0000-0000-00000000beef")
    res = coll.query_by_guids(pick + [unknown])
    expected = [k for k, gu in zip(kids, guids) if gu in pick]
    check_result_members(ctx, "guids", coll, res, expected, g, coll.start, coll.end)
    if pick:
        res = coll.query_by_guids(pick[0])
        check_result_members(ctx, "guid_single", coll, res, [k for k, gu in zip(kids, guids) if gu == pick[0]], g, coll.start, coll.end)
    # --- a sub-collection obtained by a relaxed position query has the window as its bounds while members may overhang it; a
    # GUID query on THAT collection keeps the asked members and spans the source bounds and every kept member
    we_ = max(k[3] for k in kids) - 1
    ws_ = coll.start
    if we_ > ws_ and we_ <= coll.end:
        try:
            sub = coll.query_by_position(ws_, we_, completely_within=False)
        except (InvalidQueryError, BioCantorException):
            sub = None
        if sub is not None and not sub.is_empty:
            exp_sub = [k for k in kids if max(ws_, k[2]) < min(we_, k[3])]
            sub_guids = [c.guid for c in sub.iter_children()]
            try:
                res2 = sub.query_by_guids(sub_guids[::-1])
                ctx.eq("guids_on_relaxed_subcollection:members", sorted(str(c.guid) for c in res2.iter_children()), sorted(str(src_child(coll, k[0], k[1]).guid) for k in exp_sub))
                ctx.eq("guids_on_relaxed_subcollection:bounds", (res2.start, res2.end), (min([sub.start] + [k[2] for k in exp_sub]), max([sub.end] + [k[3] for k in exp_sub])))
                ctx.label("guid_query_on_relaxed_subcollection")
                over = [k for k in exp_sub if k[3] > we_]
                if over and any(k2[2] > min(k[2] for k in over) and k2[3] < max(k[3] for k in over) for k2 in exp_sub):
                    ctx.label("overhanging_member_with_a_later_starting_earlier_ending_one")
            except (InvalidQueryError, BioCantorException) as e:
                if g is None:
                    ctx.fail("guids_on_relaxed_subcollection_raises", repr(e)[:120])
    # --- interval GUIDs
    wanted = []
    exp_children = {}
    n = 0
    for k in kids:
        c = src_child(coll, k[0], k[1])
        for gc in c.iter_children():
            n += 1
            if sel[n % len(sel)]:
                wanted.append(gc.guid)
                exp_children.setdefault((k[0], k[1]), []).append(str(gc.guid))
    ctx.label("interval_guid_subset")
    for name, fn, kinds in (("interval_guids", coll.query_by_interval_guids, ("gene", "fc", "vc")),
                            ("transcript_interval_guids", coll.query_by_transcript_interval_guids, ("gene",)),
                            ("feature_interval_guids", coll.query_by_feature_interval_guids, ("fc",))):
        res = fn(wanted + [unknown])
        exp = [k for k in kids if (k[0], k[1]) in exp_children and k[0] in kinds]
        exp_guids = sorted(str(src_child(coll, k[0], k[1]).guid) for k in exp)
        got = {str(c.guid): c for c in res.iter_children()}
        if not ctx.eq(name + ":members", sorted(got), exp_guids):
            continue
        for k in exp:
            src = src_child(coll, k[0], k[1])
            kept = got[str(src.guid)]
            ctx.eq(name + ":kept_grandchildren", sorted(str(x.guid) for x in kept.iter_children()), sorted(exp_children[(k[0], k[1])]))
            ctx.eq(name + ":parent_identifiers", sorted(map(str, kept.identifiers)), sorted(map(str, src.identifiers)))
            src_gc = {str(x.guid): x for x in src.iter_children()}
            for x in kept.iter_children():
                ctx.eq(name + ":grandchild_dict", nd(x.to_dict()), nd(src_gc[str(x.guid)].to_dict()))
            if len(exp_children[(k[0], k[1])]) < len(src_gc):
                ctx.label("proper_subset_of_transcripts")


# ------------------------------------------------------------------------------------ strategies


@st.composite
def coll_base(draw, tier):
    o = draw(S.collection_spec(max_genes=3, max_fcs=2, region_step=25))
    hi = o.pop("hi")
    # members with a block nested inside another (features, non-coding transcripts)
    for c_ in o["feature_collections"]:
        for f_ in c_["features"]:
            S.nest_block(draw, f_["blocks"], 6)
    for g_ in o["genes"]:
        for t_ in g_["transcripts"]:
            if "cds" not in t_:
                S.nest_block(draw, t_["exons"], 6)
    sp = {"obj": o}
    mode = draw(st.sampled_from(["none", "chrom", "chrom", "chunk", "id_only", "shifted", "shifted"]))
    if mode == "shifted":
        # coordinates placed around a multiple of 2^17 so that bins matter; no sequence
        lvl = draw(st.sampled_from([1, 1, 2, 8, 64, 4095]))
        sp["shift"] = lvl * BIN - draw(st.integers(0, hi + 2))
        sp["parent"] = draw(st.sampled_from(["none", "none", "id_only"]))
        if draw(st.integers(0, 2)) == 0:
            sp["wide"] = draw(st.integers(0, 5))
    else:
        sp["parent"] = mode
        if mode in ("chrom", "chunk"):
            n = hi + draw(st.integers(1, 8))
            sp["genome"] = draw(S.dna(n, n))
            kids = children_of(o)
            lo = min(k[2] for k in kids)
            if mode == "chunk":
                sp["chunk"] = [draw(st.integers(0, lo)), draw(st.integers(hi, n))]
                if draw(st.integers(0, 2)) == 0 and hi - lo >= 3:
                    # a chunk that cuts members: they overhang the collection's bounds on one or both sides
                    a = draw(st.integers(lo, hi - 2))
                    b = draw(st.integers(a + 2, hi))
                    sp["chunk"] = [a if draw(st.booleans()) else sp["chunk"][0], b if draw(st.booleans()) else sp["chunk"][1]]
                    sp["cutting_chunk"] = True
                if not o.get("variant_collections"):
                    sp.update(draw(S.chunk_flavour()))
            if draw(st.integers(0, 2)) == 0 and not sp.get("cutting_chunk"):
                # the collection's own bounds given explicitly: inside the sequence / chunk window, containing every member
                w_lo, w_hi = sp.get("chunk") or (0, n)
                o["start"] = draw(st.integers(w_lo, lo))
                o["end"] = draw(st.integers(hi, w_hi))
    return sp, hi


@st.composite
def strat_position(draw, tier="quick"):
    sp, hi = draw(coll_base(tier))
    k = sp.get("shift", 0)
    nq = 8 if tier == "quick" else 14
    qs = []
    coord = st.one_of(
        st.none(),
        st.integers(max(0, k - 2), k + hi + 10),
        *([st.integers(k + hi + 10, k + 2 ** 18 - 10), st.sampled_from([k + 2 ** 17 - 1, k + 2 ** 17, k + 2 ** 17 + 1, k + 2 ** 17 + 50])] if sp.get("wide") is not None else []),
        st.tuples(st.just("child"), st.integers(0, 9), st.sampled_from(["start", "end"]), st.sampled_from([-1, 0, 0, 1])).map(list),
    )
    for _ in range(nq):
        a, b = draw(coord), draw(coord)
        if isinstance(a, int) and isinstance(b, int) and a > b and draw(st.integers(0, 5)):
            a, b = b, a
        qs.append({"start": a, "end": b, "completely_within": draw(st.booleans()), "coding_only": draw(st.sampled_from([False, False, True])),
                   "expand": draw(st.sampled_from([False, False, True]))})
    sp["queries"] = qs
    return sp


@st.composite
def strat_ids(draw, tier="quick"):
    sp, hi = draw(coll_base(tier))
    sp["select"] = draw(st.lists(st.integers(0, 3), min_size=3, max_size=7))
    return sp


def enum_small(tier, shard, nshards):
    """one fixed small collection: ALL (start,end) ranges x all flag combinations, on three parents"""
    o = {"genes": [
        {"transcripts": [{"exons": [[2, 6], [9, 13]], "strand": "+", "cds": [[4, 6], [9, 11]], "frames": [0, 2], "transcript_id": "t1", "transcript_type": "protein_coding"},
                         {"exons": [[3, 6], [9, 15]], "strand": "+", "transcript_id": "t2", "transcript_type": "ncRNA"}], "gene_id": "gA", "gene_type": "protein_coding", "qualifiers": {}},
        {"transcripts": [{"exons": [[15, 21]], "strand": "-", "transcript_id": "t3", "transcript_type": "ncRNA"}], "gene_id": "gB", "gene_type": "ncRNA", "qualifiers": {}}],
        "feature_collections": [{"features": [{"blocks": [[6, 9]], "strand": "+", "feature_id": "f1"}, {"blocks": [[20, 24], [26, 28]], "strand": "-", "feature_id": "f2"}],
                                 "feature_collection_id": "fcA", "qualifiers": {}}],
        "variant_collections": [{"variants": [{"start": 29, "end": 30, "sequence": "G", "variant_type": "SNV", "variant_id": "v0"}], "variant_collection_id": "vcA", "qualifiers": {}}],
        "name": "small", "qualifiers": {}}
    g = "ACGTTGCAAGGCTTAACCGGATCGATTACGGACTTA"
    i = 0
    for parent, chunk in (("chrom", None), ("chunk", [1, 33]), ("none", None)):
        lo, hi = (0, len(g)) if parent == "chrom" else (chunk if chunk else (2, 30))
        for s in range(lo, hi + 1):
            i += 1
            if i % nshards != shard:
                continue
            qs = [{"start": s, "end": e, "completely_within": cw, "coding_only": co, "expand": ex}
                  for e in range(s, hi + 1) for cw in (True, False) for co in (True, False) for ex in (True, False)]
            sp = {"obj": o, "parent": parent, "genome": g, "queries": qs}
            if chunk:
                sp["chunk"] = chunk
            yield sp


def pred_f26(spec, clause, detail):
    """a sequence-bearing collection with a variant collection; some gene / feature collection has a child with no base in a
    query window that still overlaps the parent and a variant (the only situation in which the result cannot be built)"""
    o = spec["obj"]
    if not o.get("variant_collections") or spec.get("parent") not in ("chrom", "chunk"):
        return False
    groups = [[(t["exons"][0][0], t["exons"][-1][1]) for t in g["transcripts"]] for g in o.get("genes", [])] + \
             [[(f["blocks"][0][0], f["blocks"][-1][1]) for f in c["features"]] for c in o.get("feature_collections", [])]
    vspans = [(min(v["start"] for v in c["variants"]), max(v["end"] for v in c["variants"])) for c in o["variant_collections"]]
    for kids in groups:
        lo, hi = min(k[0] for k in kids), max(k[1] for k in kids)
        if len(kids) >= 2 and any(a < hi and lo < b for a, b in vspans):
            return True
    return False


PROP = Prop(
    pid="C09",
    legs=[
        Leg("position", check_position, strategy=strat_position, n_quick=350, n_thorough=3500, shards_quick=4,
            must_hit=["child_end==query_end", "child_start==query_start", "bin_boundary_crossed", "on_chunk", "coding_only&variants",
                      "bins_prefilter_active", "member_sequence_checked", "member_sliced_by_bounds", "invalid_query_refused", "empty_result", "explicit_start_inside_sequence", "relaxed_query_between_children_of_a_wide_member", "expansion_beyond_refused"],
            rule="collections (0..3 genes, 0..2 feature collections, optional variant collection) on no parent / id-only parent / whole chromosome / chunk, or shifted to sit around a multiple of 2^17 (sequence-less); 8..14 query ranges each (absolute, None, or pinned to a child's start/end +-1) x completely_within x coding_only x expand"),
        Leg("small_exhaustive", check_position, enumerate=enum_small, exhaustive=True, shards_quick=16, shards_thorough=16,
            rule="one fixed 5-member collection on three parents: ALL (start,end) ranges within the bounds x all 8 flag combinations"),
        Leg("ids", check_ids, strategy=strat_ids, n_quick=350, n_thorough=3500, shards_quick=4,
            must_hit=["interval_guid_subset", "ids_of_several_kinds", "proper_subset_of_transcripts"],
            rule="identifier subsets (incl. unknown ids and ids of several kinds), GUID subsets, interval-GUID subsets through the three interval-GUID queries"),
    ],
    rule="Oracle: brute-force membership over child spans, flags as documented; member dictionaries/identifiers equal the source's; member sequences equal "
         "SeqModel(source positions restricted to the new bounds). Non-trivial: >=3 children of >=2 kinds. Distinct = canonical JSON.",
    assumptions=[
        "cgranges is not installed: the non-optimised query path (with the bins prefilter) is the one exercised",
        "variant collections are placed clear of genes/features (C13 covers haplotype incorporation)",
        "expanding a sequence-bearing collection beyond its bounds may be refused (documented)",
    ],
    predicates={"f26": pred_f26},
)
