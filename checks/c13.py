"""C13 — variant haplotypes: alternative sequence and lift-over match the edit model."""
import json
import types

from hypothesis import strategies as st

import harness.compat  # noqa: F401
from harness import refmodel as rm
from harness import strategies as S
from harness.build import mkvar, mkvc, mkfeat, mkfc, mktx, mkcds, mkgene, mkcollection, mkloc_blocks, chrom_parent, chunk_parent
from harness.core import Leg, Prop
from inscripta.biocantor.exc import BioCantorException, EmptyLocationException, LocationOverlapException
from inscripta.biocantor.io.vcf.parser import convert_vcf_records_to_model
from inscripta.biocantor.location.location_impl import EmptyLocation

INTERNAL = (AttributeError, IndexError, KeyError, RecursionError, UnboundLocalError, NameError, ZeroDivisionError, TypeError, StopIteration)


def apply_edits(ref, variants, offset=0):
    """literal substitution of non-overlapping variants (coordinates relative to ref[offset:])"""
    out = []
    cur = 0
    for v in sorted(variants, key=lambda v: v["start"]):
        s, e = v["start"] - offset, v["end"] - offset
        out.append(ref[cur:s])
        out.append(v["sequence"])
        cur = e
    out.append(ref[cur:])
    return "".join(out)


def classify(v, blocks):
    vs, ve = v["start"], v["end"]
    # judged block by block (blocks may overlap - the frameshift model): a variant that partially overlaps any block straddles
    if any(not (ve <= s or vs >= e) and not (s <= vs and ve <= e) for s, e in blocks):
        return "straddles_boundary"
    if any(s <= vs and ve <= e for s, e in blocks):
        return "inside_block"
    return "outside"


def edited_blocks(genome, blocks, variants):
    """per block: (new_start, new_end, edited plus-strand string) on the alternative haplotype; None for deleted blocks"""
    out = []
    for s, e in blocks:
        inside = [v for v in variants if s <= v["start"] and v["end"] <= e]
        before = [v for v in variants if v["end"] <= s]
        img = apply_edits(genome[s:e], inside, offset=s)
        shift = sum(len(v["sequence"]) - (v["end"] - v["start"]) for v in before)
        if img:
            out.append((s + shift, s + shift + len(img), img))
    return out


def eb_tied(eb):
    """edited blocks that tie on start or end (a deletion trimmed one of two overlapping blocks): the 5'->3' order of such
    blocks is not something a Location represents (C01 F1 / C03 F25); their sequences are then compared as multisets of letters"""
    return len({x[0] for x in eb}) < len(eb) or len({x[1] for x in eb}) < len(eb)


def image(eb, strand):
    if strand == "+":
        return "".join(x[2] for x in eb)
    return "".join(rm.revcomp(x[2]) for x in reversed(eb))


def labels(ctx, spec, blocks, strand, variants):
    cl = [classify(v, blocks) for v in variants]
    lenchg = [v for v in variants if len(v["sequence"]) != v["end"] - v["start"]]
    lo = min(b[0] for b in blocks)
    before = [v for v in lenchg if v["end"] <= lo]
    inside = [v for v, c in zip(lenchg, cl) if c == "inside_block"]
    if len(before) >= 2 or (len(lenchg) >= 2 and before and inside):
        ctx.nt("two_len_changing_before_location" if len(before) >= 2 else "len_change_before_and_inside")
    if strand == "-" and len(blocks) > 1:
        ctx.nt("minus_multiblock")
    if spec.get("chunk"):
        ctx.nt("chunk_parent")
    if any(len(v["sequence"]) > v["end"] - v["start"] and c == "inside_block" for v, c in zip(variants, cl)) and strand == "-":
        ctx.label("insertion_inside_block&minus")
    if any(v["sequence"] == "" and any((s, e) == (v["start"], v["end"]) for s, e in blocks) for v in variants):
        ctx.label("deletion_removes_block")
    if "straddles_boundary" in cl:
        ctx.label("straddling_variant")
    return cl


def parent_of(spec):
    g = spec["genome"]
    if spec.get("chunk"):
        return chunk_parent(g, spec["chunk"][0], spec["chunk"][1], idiom=spec.get("chunk_idiom", "api")), spec["chunk"][0], g[spec["chunk"][0]:spec["chunk"][1]]
    if spec.get("anonymous_chromosome"):
        # a whole chromosome that carries no name (seq_to_parent(sequence) without an id): the edited molecule the library builds
        # for a haplotype has the same (absent) name, type and length - it must still not be mistaken for the reference
        return chrom_parent(g, name=None), 0, g
    return chrom_parent(g), 0, g


def check_lift(spec, ctx):
    g = spec["genome"]
    blocks, strand = [tuple(b) for b in spec["blocks"]], spec["strand"]
    variants = spec["variants"]
    cl = labels(ctx, spec, blocks, strand, variants)
    if spec.get("chunk") and spec.get("chunk_strand") == "-":
        # the chunk is the reverse complement of its window: the alternative sequence is the reverse complement of the edited window
        # (one clause only; open finding F28 - variants on such chunks are applied as if the chunk were a forward one)
        ctx.label("minus_chunk_parent")
        pm = chunk_parent(g, spec["chunk"][0], spec["chunk"][1], strand="-")
        win = g[spec["chunk"][0]:spec["chunk"][1]]
        try:
            ctx.eq("minus_chunk:collection_alternative_sequence", str(mkvc({"variants": variants}, pm).alternative_genomic_sequence), rm.revcomp(apply_edits(win, variants, offset=spec["chunk"][0])))
        except Exception as e:
            ctx.fail("minus_chunk:collection_alternative_sequence_raises", repr(e)[:120])
        return
    parent, cs, refseq = parent_of(spec)
    # alternative sequence: literal substitution (single variant and collection), whole chromosome and chunk
    pre = spec.get("preused") if not spec.get("chunk") else None
    if pre:
        ctx.label("children_used_before:" + pre)
    other = chrom_parent(rm.revcomp(g)) if pre == "other_reference" else None
    vc = mkvc({"variants": variants}, parent, preused=pre, other_parent=other)
    ctx.eq("collection_alternative_sequence", str(vc.alternative_genomic_sequence), apply_edits(refseq, variants, offset=cs))
    for v in variants:
        vi = mkvar(v, parent)
        ctx.eq("variant_alternative_sequence", str(vi.alternative_genomic_sequence), apply_edits(refseq, [v], offset=cs))
    # given shuffled, the collection is the same haplotype
    vc2 = mkvc({"variants": [variants[i % len(variants)] for i in spec["shuffle"]] if sorted(set(i % len(variants) for i in spec["shuffle"])) == list(range(len(variants))) and len(spec["shuffle"]) == len(variants) else variants}, parent)
    ctx.eq("collection_order_independent", str(vc2.alternative_genomic_sequence), str(vc.alternative_genomic_sequence))
    # a haplotype is a value: the list it was built from is the caller's working list (next haplotype = same list plus / minus a
    # variant) and what happens to it later does not reach into the collection
    from inscripta.biocantor.gene.variants import VariantIntervalCollection as _VC
    work = [mkvar(v, parent) for v in variants]
    work.reverse()
    vc3 = _VC(work, parent_or_seq_chunk_parent=parent)
    work.append(mkvar({"start": len(g) - 1, "end": len(g), "sequence": "T" if g[-1] != "T" else "A", "variant_type": "SNV"}, parent))
    del work[0]
    ctx.eq("collection_unaffected_by_later_edits_of_the_callers_list", str(vc3.alternative_genomic_sequence), apply_edits(refseq, variants, offset=cs))
    ctx.eq("collection_keeps_its_variants", sorted((x.start, x.end) for x in vc3.variant_intervals), sorted((v["start"], v["end"]) for v in variants))
    loc = mkloc_blocks([list(b) for b in blocks], strand, chrom_parent(g))
    clean = all(c != "straddles_boundary" for c in cl)
    # --- single variants
    for v, c in zip(variants, cl):
        vi = mkvar(v, parent)
        try:
            lifted = vi.lift_over_location(loc)
        except INTERNAL as e:
            ctx.fail("single_variant_lift_internal_error", {"variant": v, "exc": repr(e)[:100]})
            continue
        except BioCantorException:
            if c != "straddles_boundary":
                ctx.fail("single_variant_lift_refused", {"variant": v})
            continue
        if c == "straddles_boundary":
            continue
        eb = edited_blocks(g, blocks, [v])
        check_lifted(ctx, "single_variant_lift", lifted, eb, strand, cs, v)
    # --- the collection
    try:
        lifted = vc.lift_over_location(loc)
    except INTERNAL as e:
        ctx.fail("collection_lift_internal_error", {"exc": repr(e)[:100], "clean": clean})
        return
    except BioCantorException as e:
        ctx.true("collection_lift_refused_clean", not clean, repr(e)[:100])
        return
    if clean:
        eb = edited_blocks(g, blocks, variants)
        check_lifted(ctx, "collection_lift", lifted, eb, strand, cs, None)
    # --- without any sequence: pure coordinate lift-over
    if clean and not spec.get("chunk"):
        vc0 = mkvc({"variants": variants}, None)
        try:
            l0 = vc0.lift_over_location(mkloc_blocks([list(b) for b in blocks], strand))
            eb = edited_blocks(g, blocks, variants)
            if not eb:
                ctx.true("sequenceless_lift_deleted", l0 is EmptyLocation() or l0.is_empty or len(l0) == 0, repr(l0))
            elif l0.is_empty:
                ctx.fail("sequenceless_lift_positions", {"got": [], "expected": sorted(rm.posset([(a, b) for a, b, _ in eb]))})
            else:
                ctx.eq("sequenceless_lift_positions", sorted(rm.posset(rm.loc_blocks(l0))), sorted(rm.posset([(a, b) for a, b, _ in eb])))
                ctx.eq("sequenceless_lift_strand", rm.loc_strand(l0), strand)
        except INTERNAL as e:
            ctx.fail("sequenceless_lift_internal_error", repr(e)[:100])


def check_lifted(ctx, clause, lifted, eb, strand, cs, v):
    if not eb:
        # "locations deleted entirely become empty": the empty location, not an interval of length 0 left where the bases were
        ctx.true(clause + ":deleted_is_empty", lifted is EmptyLocation() or lifted.is_empty, {"lifted": repr(lifted)[:80], "variant": v})
        return
    if lifted.is_empty or len(lifted) == 0:
        ctx.fail(clause + ":unexpectedly_empty", {"expected": [x[:2] for x in eb], "variant": v})
        return
    exp_pos = sorted(rm.posset([(a - cs, b - cs) for a, b, _ in eb]))
    ctx.eq(clause + ":positions", sorted(rm.posset(rm.loc_blocks(lifted))), exp_pos, extra={"variant": v})
    ctx.eq(clause + ":strand", rm.loc_strand(lifted), strand)
    # a block whose bases were all deleted is gone: no zero-length block stays behind in the lifted location
    ctx.true(clause + ":no_zero_length_block_left", all(e_ > s_ for s_, e_ in rm.loc_blocks(lifted)), {"blocks": rm.loc_blocks(lifted), "variant": v})
    try:
        seq = str(lifted.extract_sequence())
    except BioCantorException as e:
        ctx.fail(clause + ":no_sequence", repr(e)[:100])
        return
    if eb_tied(eb):
        ctx.label("edited_blocks_tie")
        ctx.eq(clause + ":sequence_letters", sorted(seq), sorted(image(eb, strand)), extra={"variant": v})
    else:
        ctx.eq(clause + ":sequence", seq, image(eb, strand), extra={"variant": v})


# ------------------------------------------------------------------------------------ incorporate_variants


def check_incorporate(spec, ctx):
    if spec.get("anonymous_chromosome") and not spec.get("chunk"):
        ctx.label("anonymous_chromosome")
    g = spec["genome"]
    kind, o = spec["kind"], spec["obj"]
    variants = spec["variants"]
    parent, cs, refseq = parent_of(spec)
    vparent = parent_of(spec)[0]
    pre = spec.get("preused") if not spec.get("chunk") else None
    if pre:
        ctx.label("children_used_before:" + pre)
    vc = mkvc({"variants": variants}, vparent, preused=pre, other_parent=chrom_parent(rm.revcomp(g)) if pre == "other_reference" else None)
    vobj = vc if spec["as_collection"] else mkvar(variants[0], vparent)
    vs = variants if spec["as_collection"] else variants[:1]
    if kind == "feat":
        obj = mkfeat(o, parent)
        parts = [("feature", o["blocks"], o["strand"], lambda x: x)]
    elif kind == "tx":
        obj = mktx(o, parent)
        parts = [("transcript", o["exons"], o["strand"], lambda x: x)]
        if "cds" in o:
            parts.append(("transcript_cds", o["cds"], o["strand"], lambda x: x.cds))
    elif kind == "cds":
        obj = mkcds(o, parent)
        parts = [("cds", o["blocks"], o["strand"], lambda x: x)]
    elif kind == "fc":
        obj = mkfc(o, parent)
        parts = [("fc_feature:" + f["feature_id"], f["blocks"], f["strand"], (lambda fid: (lambda x: next(c for c in x.feature_intervals if c.feature_id == fid)))(f["feature_id"]))
                 for f in o["features"]]
    elif kind == "collection":
        # a whole annotation collection (genes + feature collections): every member of the result carries the edits
        obj = mkcollection(o, parent)
        parts = []
        for gn in o["genes"]:
            for t in gn["transcripts"]:
                parts.append(("collection_transcript:" + t["transcript_id"], t["exons"], t["strand"],
                              (lambda gid, tid: (lambda x: next(tx for g_ in x.genes if g_.gene_id == gid for tx in g_.transcripts if tx.transcript_id == tid)))(gn["gene_id"], t["transcript_id"])))
        for c_ in o["feature_collections"]:
            for f in c_["features"]:
                parts.append(("collection_feature:" + f["feature_id"], f["blocks"], f["strand"],
                              (lambda cid, fid: (lambda x: next(ft for c2 in x.feature_collections if c2.feature_collection_id == cid for ft in c2.feature_intervals if ft.feature_id == fid)))(c_["feature_collection_id"], f["feature_id"])))
    else:
        obj = mkgene(o, parent)
        parts = [("gene_transcript%d" % i, t["exons"], t["strand"], (lambda i: (lambda x: x.transcripts[i]))(i)) for i, t in enumerate(o["transcripts"])]
    all_blocks = [tuple(b) for _, bl, _, _ in parts for b in bl]
    class_parts = [bl for _, bl, _, _ in parts]
    if kind == "gene":
        class_parts += [t["cds"] for t in o["transcripts"] if "cds" in t]
    if kind == "collection":
        class_parts += [t["cds"] for gn in o["genes"] for t in gn["transcripts"] if "cds" in t]
    cl = [classify(v, [tuple(b) for b in bl]) for v in vs for bl in class_parts]
    labels(ctx, spec, [tuple(b) for b in parts[0][1]], parts[0][2], vs)
    ctx.label("kind:" + kind)
    clean = all(c != "straddles_boundary" for c in cl)
    before = json.dumps(obj.to_dict(), default=str, sort_keys=True)
    try:
        new = obj.incorporate_variants(vobj)
    except INTERNAL as e:
        ctx.fail("incorporate_internal_error", {"exc": repr(e)[:120], "clean": clean})
        return
    except EmptyLocationException:
        # documented: incorporation that deletes an interval entirely is refused
        all_parts = [bl for _, bl, _, _ in parts]
        if kind == "gene":
            all_parts += [t["cds"] for t in o["transcripts"] if "cds" in t]
        if kind == "collection":
            all_parts += [t["cds"] for gn in o["genes"] for t in gn["transcripts"] if "cds" in t]
        deleted = any(not edited_blocks(g, [tuple(b) for b in bl], vs) for bl in all_parts)
        ctx.true("incorporate_refused_without_deletion", deleted or not clean, None)
        ctx.refuse("deleted_interval")
        return
    except BioCantorException as e:
        ctx.true("incorporate_refused_clean", not clean, repr(e)[:120])
        ctx.refuse("refused")
        return
    except ValueError as e:
        ctx.true("incorporate_refused_clean_valueerror", not clean, repr(e)[:120])
        return
    ctx.eq("operand_unchanged", json.dumps(obj.to_dict(), default=str, sort_keys=True), before)
    # the derived gene / feature collection chooses its primary member by the stated rule applied to ITS OWN members (an indel can
    # change the ranking): flagged member if any, else longest CDS, then longest spliced length, then list position
    if kind in ("gene", "fc"):
        kids = new.transcripts if kind == "gene" else new.feature_intervals
        src_kids = o["transcripts"] if kind == "gene" else o["features"]
        flagged = [i for i, t in enumerate(src_kids) if t.get("is_primary_tx") or t.get("is_primary_feature")]
        if len(kids) == len(src_kids):
            if flagged:
                want = flagged[0]
            else:
                want = min(range(len(kids)), key=lambda i: (-(kids[i].cds_size if kind == "gene" else 0), -len(kids[i]), i))
            got = [i for i, k_ in enumerate(kids) if k_ is (new.get_primary_transcript() if kind == "gene" else new.get_primary_feature())]
            ctx.eq("derived_primary_member_by_rule", got, [want])
            ctx.label("derived_primary_checked")
    if not clean:
        return
    for name, bl, strand, get in parts:
        eb = edited_blocks(g, [tuple(b) for b in bl], vs)
        try:
            part = get(new)
        except (INTERNAL, StopIteration) as e:
            ctx.fail(name + ":accessor_internal_error", repr(e)[:100])
            continue
        if part is None:
            ctx.fail(name + ":lost", None)
            continue
        try:
            seq = str(part.get_spliced_sequence())
        except BioCantorException as e:
            ctx.fail(name + ":no_sequence", repr(e)[:100])
            continue
        if eb_tied(eb):
            ctx.label("edited_blocks_tie")
            ctx.eq(name + ":spliced_sequence_letters", sorted(seq), sorted(image(eb, strand)))
        else:
            ctx.eq(name + ":spliced_sequence", seq, image(eb, strand))
        # reference spliced sequence with the edits applied
        refimg = rm.seq_image(g, rm.positions(bl, strand), strand)
        if not vs or all(classify(v, [tuple(b) for b in bl]) == "outside" for v in vs):
            ctx.eq(name + ":unchanged_when_all_outside", seq, refimg)


# ------------------------------------------------------------------------------------ haplotype mapping in collections


def check_mapping(spec, ctx):
    g = spec["genome"]
    o = spec["obj"]
    ctx.nt()
    parent = chrom_parent(g)
    try:
        if spec.get("variants_built_without_parent"):
            # construction order of a pipeline that reads the variants before the reference: the haplotypes are built without any
            # parent, and the sequence only arrives through the AnnotationCollection constructor (which re-parents its children)
            from harness.build import mkgene as _mg, mkfc as _mf, AnnotationCollection as _AC
            coll = _AC(feature_collections=[_mf(c_, parent) for c_ in o.get("feature_collections", [])] or None,
                       genes=[_mg(g_, parent) for g_ in o.get("genes", [])] or None,
                       variant_collections=[mkvc(v_, None) for v_ in o.get("variant_collections", [])] or None,
                       sequence_name="chr1", parent_or_seq_chunk_parent=parent)
            ctx.label("variants_built_without_parent")
        else:
            coll = mkcollection(o, parent)
    except INTERNAL as e:
        ctx.fail("collection_with_variants_internal_error", repr(e)[:120])
        return
    except (BioCantorException, ValueError):
        ctx.refuse("construction_refused")
        return
    m = coll.alternative_haplotype_mapping
    vcs = coll.variant_collections
    members = list(coll.genes) + list(coll.feature_collections)
    exp = {}
    for vcx in vcs:
        for mem in members:
            if max(vcx.start, mem.start) < min(vcx.end, mem.end):
                exp.setdefault(str(vcx.guid), []).append(mem)
    got = {str(k): v for k, v in (m or {}).items()}
    ctx.eq("mapping_keys", sorted(got), sorted(exp))
    for k in exp:
        if k in got:
            ctx.eq("mapping_member_count", len(got[k]), len(exp[k]))
            ctx.eq("mapping_member_identifiers", sorted(sorted(map(str, x.identifiers)) for x in got[k]), sorted(sorted(map(str, x.identifiers)) for x in exp[k]))
            ctx.label("mapping_nonempty")
            # the mapped members carry the haplotype's bases (SNVs only here: coordinates do not move)
            vspec = next((v_ for v_, vcx in zip(o.get("variant_collections", []), sorted(vcs, key=lambda x: x.start)) if str(vcx.guid) == k), None)
            vcx = next((x for x in vcs if str(x.guid) == k), None)
            if vcx is not None:
                galt = list(g)
                for vi in vcx.variant_intervals:
                    galt[vi.start:vi.end] = list(str(vi.sequence))
                galt = "".join(galt)
                try:
                    ctx.eq("haplotype_alternative_sequence", str(vcx.alternative_genomic_sequence), galt)
                except BioCantorException as e:
                    ctx.fail("haplotype_alternative_sequence_raises", repr(e)[:100])
                for x in got[k]:
                    for kid in x.iter_children():
                        try:
                            pos_ = rm.loc_positions(kid.chromosome_location)
                            ctx.eq("mapped_member_spliced_sequence", str(kid.get_spliced_sequence()), rm.seq_image(galt, pos_, kid.strand.to_symbol()))
                        except BioCantorException as e:
                            ctx.fail("mapped_member_sequence_raises", repr(e)[:100])
    if not vcs:
        ctx.true("no_variants_no_mapping", m is None)


# ------------------------------------------------------------------------------------ VCF records


def mkrecord(r):
    alts = [types.SimpleNamespace(sequence=a["sequence"], type=a["type"]) for a in r["alts"]]
    data = types.SimpleNamespace()
    if r.get("ps") is not None:
        data.PS = r["ps"]
    sample = types.SimpleNamespace(data=data)
    return types.SimpleNamespace(CHROM=r["chrom"], POS=r["start"] + 1, affected_start=r["start"], affected_end=r["end"], ALT=alts,
                                 samples=[sample] + ([sample] if r.get("two_samples") else []))


def check_vcf(spec, ctx):
    import warnings

    recs = spec["records"]
    ctx.nt()
    with warnings.catch_warnings():
        warnings.simplefilter("ignore")
        out = convert_vcf_records_to_model([mkrecord(r) for r in recs])
    chroms = []
    for r in recs:
        if r["chrom"] not in chroms:
            chroms.append(r["chrom"])
    ctx.eq("vcf_sequences", sorted(out), sorted(chroms))
    if len(chroms) > 1:
        ctx.label("several_contigs")
    for chrom in chroms:
        mine = [r for r in recs if r["chrom"] == chrom]
        exp_groups = {}
        singles = []
        for r in mine:
            for a in r["alts"]:
                v = (r["start"], r["end"] if r["end"] != r["start"] else r["end"] + 1, a["sequence"], a["type"])
                if r.get("ps") is not None:
                    exp_groups.setdefault(r["ps"], []).append(v)
                else:
                    singles.append([v])
            if len(r["alts"]) > 1:
                ctx.label("multi_alt")
        if len(exp_groups) >= 2:
            ctx.label("two_phase_sets")
        if 0 in exp_groups:
            ctx.label("phase_set_zero")
        got = out.get(chrom, [])
        got_groups = []
        for m in got:
            ctx.eq("vcf_sequence_name", m.sequence_name, chrom)
            vs = sorted((v.start, v.end, v.sequence, v.variant_type) for v in m.variant_intervals)
            pbs = {v.phase_block for v in m.variant_intervals}
            ctx.true("vcf_one_phase_set_per_collection", len(pbs) == 1, sorted(map(str, pbs)))
            got_groups.append((None if None in pbs else list(pbs)[0], vs))
        exp_list = [(ps, sorted(vs)) for ps, vs in exp_groups.items()] + [(None, sorted(vs)) for vs in singles]
        ctx.eq("vcf_grouping", sorted(got_groups, key=lambda x: (str(x[0]), x[1])), sorted(exp_list, key=lambda x: (str(x[0]), x[1])))
        for m in got:
            pb = m.variant_intervals[0].phase_block
            if pb is not None:
                ctx.eq("vcf_collection_id", m.variant_collection_id, str(pb))


# ------------------------------------------------------------------------------------ strategies


@st.composite
def strat_lift(draw, tier="quick"):
    bl = draw(S.layout(max_k=4, allow_empty=False, allow_adjacent=True, allow_overlap=draw(st.integers(0, 4)) == 0, max_len=8, max_gap=6, max_start=10))
    lo, hi = bl[0][0], bl[-1][1]
    n = hi + draw(st.sampled_from([0, 1, 2, 3, 4, 5, 6, 7, 8]))
    g = draw(S.dna(n, n))
    variants = draw(S.variant_specs(max(0, lo - 8), min(n, hi + 6), max_n=4))
    if draw(st.integers(0, 7)) == 0:
        # a deletion that removes exactly one block of the location (unpadded, or padded with the base before it when that base is
        # not part of the location): the block disappears, the others keep their bases - on either strand
        b_ = draw(st.sampled_from(bl))
        if b_[0] >= 1 and draw(st.booleans()) and not any(s_ <= b_[0] - 1 < e_ for s_, e_ in bl):
            variants = [{"start": b_[0] - 1, "end": b_[1], "sequence": g[b_[0] - 1], "variant_type": "deletion"}]
        else:
            variants = [{"start": b_[0], "end": b_[1], "sequence": "", "variant_type": "deletion"}]
    sp = {"genome": g, "blocks": bl, "strand": draw(st.sampled_from(["+", "-"])), "variants": variants,
          "shuffle": list(draw(st.permutations(list(range(len(variants))))))}
    if draw(st.integers(0, 2)) == 0:
        vlo = min(v["start"] for v in variants)
        vhi = max(v["end"] for v in variants)
        sp["chunk"] = [draw(st.integers(0, min(lo, vlo))), draw(st.integers(max(hi, vhi), n))]
        sp["chunk_idiom"] = draw(st.sampled_from(["api", "api", "docstring"]))
        if draw(st.integers(0, 7)) == 0:
            sp["chunk_strand"] = "-"
    else:
        sp["preused"] = draw(st.sampled_from([None, None, "other_reference", "sequence_less"]))
        sp["anonymous_chromosome"] = draw(st.integers(0, 3)) == 0
    return sp


@st.composite
def strat_incorporate(draw, tier="quick"):
    kind = draw(st.sampled_from(["feat", "tx", "tx", "cds", "gene", "fc", "collection"]))
    if kind == "feat":
        o = draw(S.feature_spec(max_blocks=3, max_len=8, start_max=10))
        lo, hi = o["blocks"][0][0], o["blocks"][-1][1]
    elif kind == "tx":
        o = draw(S.transcript_spec(max_exons=3, max_len=8, start_max=10, frameshift_prob=0, cds_overlap_prob=5))
        lo, hi = o["exons"][0][0], o["exons"][-1][1]
    elif kind == "cds":
        o = draw(S.cds_spec(max_k=3, max_len=8, frameshift_prob=10 ** 9, ambiguous_prob=10 ** 9, overlap_prob=5))
        o.pop("genome")
        o["frameshift"] = False
        lo, hi = o["blocks"][0][0], o["blocks"][-1][1]
    elif kind == "fc":
        o = draw(S.feature_collection_spec(max_feat=3, max_blocks=3, max_len=7))
        for i, f in enumerate(o["features"]):
            f["feature_id"] = "f%d" % i
        lo = min(f["blocks"][0][0] for f in o["features"])
        hi = max(f["blocks"][-1][1] for f in o["features"])
    elif kind == "collection":
        o = draw(S.collection_spec(max_genes=2, max_fcs=1, with_variants=False, region_step=12, tx_kw={"frameshift_prob": 0}))
        hi = o.pop("hi")
        o.pop("variant_collections", None)
        for gi, gn in enumerate(o["genes"]):
            gn["gene_id"] = "g%d" % gi
            for ti, t in enumerate(gn["transcripts"]):
                t["transcript_id"] = "g%dt%d" % (gi, ti)
        for ci, c_ in enumerate(o["feature_collections"]):
            c_["feature_collection_id"] = "c%d" % ci
            for fi, f in enumerate(c_["features"]):
                f["feature_id"] = "c%df%d" % (ci, fi)
        los = [t["exons"][0][0] for gn in o["genes"] for t in gn["transcripts"]] + [f["blocks"][0][0] for c_ in o["feature_collections"] for f in c_["features"]]
        if not los:
            o["genes"] = [draw(S.gene_spec(max_tx=1, max_exons=2, max_len=6, frameshift_prob=0))]
            o["genes"][0]["gene_id"] = "g0"
            o["genes"][0]["transcripts"][0]["transcript_id"] = "g0t0"
            los = [o["genes"][0]["transcripts"][0]["exons"][0][0]]
            hi = max(hi, o["genes"][0]["transcripts"][0]["exons"][-1][1])
        lo = min(los)
    else:
        o = draw(S.gene_spec(max_tx=2, max_exons=3, max_len=7, frameshift_prob=0))
        lo = min(t["exons"][0][0] for t in o["transcripts"])
        hi = max(t["exons"][-1][1] for t in o["transcripts"])
    n = hi + draw(st.sampled_from([0, 1, 2, 3, 4, 5, 6, 7, 8]))
    g = draw(S.dna(n, n))
    variants = draw(S.variant_specs(max(0, lo - 6), min(n, hi + 5), max_n=3))
    sp = {"kind": kind, "obj": o, "genome": g, "variants": variants, "as_collection": draw(st.sampled_from([True, True, False]))}
    if draw(st.integers(0, 3)) == 0:
        vlo = min(v["start"] for v in variants)
        vhi = max(v["end"] for v in variants)
        sp["chunk"] = [draw(st.integers(0, min(lo, vlo))), draw(st.integers(max(hi, vhi), n))]
        sp["chunk_idiom"] = draw(st.sampled_from(["api", "api", "docstring"]))
    else:
        sp["preused"] = draw(st.sampled_from([None, None, "other_reference", "sequence_less"]))
        sp["anonymous_chromosome"] = draw(st.integers(0, 3)) == 0
    return sp


@st.composite
def strat_mapping(draw, tier="quick"):
    sp_ = draw(_strat_mapping(tier))
    sp_["variants_built_without_parent"] = draw(st.integers(0, 2)) == 0
    return sp_


@st.composite
def _strat_mapping(draw, tier="quick"):
    o = draw(S.collection_spec(max_genes=2, max_fcs=1, with_variants=False, region_step=30))
    hi = o.pop("hi")
    n = hi + draw(st.integers(4, 10))
    g = draw(S.dna(n, n))
    nv = draw(st.integers(0, 2))
    vcs = []
    cur = 0
    for i in range(nv):
        if cur >= n - 2:
            break
        # SNVs only: the mapping clause is about overlap, not about length changes
        s = draw(st.integers(cur, n - 2))
        vcs.append({"variants": [{"start": s, "end": s + 1, "sequence": draw(st.sampled_from("ACGT")), "variant_type": "SNV", "variant_id": "v%d" % i}],
                    "variant_collection_id": "vc%d" % i})
        cur = s + 2
    o["variant_collections"] = vcs
    return {"obj": o, "genome": g}


@st.composite
def strat_vcf(draw, tier="quick"):
    n = draw(st.integers(1, 6))
    chroms = draw(st.lists(st.sampled_from(["chr1", "chr2", "chrM"]), min_size=1, max_size=2, unique=True))
    recs = []
    for c in chroms:
        pos = 0
        for _ in range(draw(st.integers(1, n))):
            pos += draw(st.integers(1, 9))
            L = draw(st.sampled_from([0, 1, 1, 2, 3]))
            alts = [{"sequence": draw(st.text(alphabet="ACGT", min_size=0, max_size=3)), "type": draw(st.sampled_from(["SNV", "MNV", "indel"]))}
                    for _ in range(draw(st.sampled_from([1, 1, 1, 2, 3])))]
            recs.append({"chrom": c, "start": pos, "end": pos + L, "alts": alts, "ps": draw(st.sampled_from([None, None, 0, 1, 2, 7])),
                         "two_samples": draw(st.integers(0, 5)) == 0})
            pos += L
    return {"records": recs}


def _lib_block_step(s, e, vs, ve, alt_len):
    """the per-block arithmetic of the library's single-variant lift, restated here ONLY to delimit known finding F14 (it is not an
    oracle): returns the lifted block or None when the variant deletes it"""
    d = alt_len - (ve - vs)
    if d >= 0:
        return (s if s < ve else s + d, e if e < ve else e + d)
    if vs + alt_len <= s <= e <= ve:
        return None
    left = ve - s if vs + alt_len <= s < ve else 0
    return (s if s < ve + d else s + d + left, e if e <= ve + d else e + max(d, d - e + ve))


def _walk(blocks, vs_sorted, stale):
    cur = [tuple(b) for b in blocks]
    cum = 0
    for v in vs_sorted:
        off = 0 if stale else cum
        nxt = []
        for s_, e_ in cur:
            r = _lib_block_step(s_, e_, v["start"] + off, v["end"] + off, len(v["sequence"]))
            if r is not None:
                nxt.append(r)
        cur = nxt
        cum += len(v["sequence"]) - (v["end"] - v["start"])
    return cur


def _block_lists(o):
    """every list of [start, end] pairs found in a spec (location blocks, exons, CDS blocks of every member)"""
    out = []
    if isinstance(o, dict):
        for k_, v_ in o.items():
            if k_ in ("blocks", "exons", "cds") and isinstance(v_, list) and v_ and all(isinstance(b, (list, tuple)) and len(b) == 2 for b in v_):
                out.append(v_)
            else:
                out.extend(_block_lists(v_))
    elif isinstance(o, list):
        for v_ in o:
            out.extend(_block_lists(v_))
    return out


def pred_f14(spec, clause, detail):
    """F14 is met when applying a later variant of the haplotype at its REFERENCE coordinates (what the library does) gives other
    blocks than applying it at the coordinates shifted by the earlier length changes (what is right), for some block list of the case.
    Haplotypes whose later variants land the same either way (e.g. each indel well inside its own exon) are answered correctly by the
    library and are NOT excused."""
    if spec.get("as_collection") is False:
        return False
    vs = sorted(spec["variants"], key=lambda v: v["start"])
    if not any(len(v["sequence"]) != v["end"] - v["start"] for v in vs[:-1]):
        return False
    lists = _block_lists({k_: v_ for k_, v_ in spec.items() if k_ != "variants"})
    return any(_walk(bl, vs, True) != _walk(bl, vs, False) for bl in lists)


PROP = Prop(
    pid="C13",
    legs=[
        Leg("lift", check_lift, strategy=strat_lift, n_quick=700, n_thorough=7000, shards_quick=4,
            must_hit=["two_len_changing_before_location", "len_change_before_and_inside", "deletion_removes_block", "insertion_inside_block&minus", "chunk_parent", "straddling_variant", "minus_multiblock"],
            rule="genomes x 1..4 non-overlapping SNV/MNV/padded insertion/padded deletion/unpadded deletion (given sorted and shuffled) x locations of 1..4 blocks on both strands x {whole chromosome, chunk}: alternative sequences, lift-over of the location through each single variant and through the collection (with sequence and sequence-less)"),
        Leg("incorporate", check_incorporate, strategy=strat_incorporate, n_quick=500, n_thorough=5000, shards_quick=4,
            must_hit=["kind:feat", "kind:tx", "kind:cds", "kind:gene", "chunk_parent"],
            rule="features, transcripts (+-CDS), CDS, genes x 1..3 variants (as a collection or one variant) x parents: incorporate_variants(x) spliced sequences vs the edit model; operand unchanged"),
        Leg("haplotype_mapping", check_mapping, strategy=strat_mapping, n_quick=200, n_thorough=2000, shards_quick=4, must_hit=["mapping_nonempty"],
            rule="annotation collections with 0..2 single-SNV variant collections: alternative_haplotype_mapping keys/members by span overlap"),
        Leg("vcf_records", check_vcf, strategy=strat_vcf, n_quick=800, n_thorough=8000, must_hit=["multi_alt", "two_phase_sets", "several_contigs", "phase_set_zero"],
            rule="duck-typed VCF records (CHROM, affected_start/end, ALT[*].sequence/type, samples[*].data.PS present or absent, multi-ALT, several phase sets and contigs) through convert_vcf_records_to_model"),
    ],
    rule="Oracle: EditModel (literal substitution; per-block edited image). Non-trivial: >=2 length-changing variants with one upstream of and one inside the "
         "location, or minus multi-block, or chunk parent. Variants straddling a block boundary must only not fail with an internal error.",
    assumptions=[
        "PyVCF3 is not installed: only convert_vcf_records_to_model is decided, on duck-typed records",
        "lift-over is claimed for variants wholly inside one block or wholly outside all blocks (as the property states)",
        "incorporation that deletes an interval entirely may be refused with EmptyLocationException (documented)",
    ],
    predicates={"f14": pred_f14, "minus_chunk": lambda spec, clause, detail: bool(spec.get("chunk")) and spec.get("chunk_strand") == "-"},
)
