"""C03 — extracted sequence is the base-by-base image of the coordinate map; derived sequences keep a consistent location."""
from hypothesis import strategies as st

import harness.compat  # noqa: F401
from harness import refmodel as rm
from harness import strategies as S
from harness.build import mkloc, STRAND
from harness.core import Leg, Prop
from inscripta.biocantor.exc import InvalidPositionException, InvalidStrandException, BioCantorException
from inscripta.biocantor.parent import Parent
from inscripta.biocantor.sequence import Sequence
from inscripta.biocantor.sequence.alphabet import Alphabet

NT_ALPHABETS = list(S.ALPHABETS)


def root_parent(genome, alphabet, seq_type=None):
    return Parent(id="root", sequence=Sequence(genome, Alphabet[alphabet], id="root", type=seq_type))


def labels(ctx, spec):
    L = spec["loc"]
    ne = rm.sorted_blocks(L["blocks"])
    g = spec["genome"]
    if L["strand"] == "-" and len(ne) >= 2:
        ctx.nt("minus&multiblock")
    if any(c in "BDHVKMbdhvkm" for c in g):
        ctx.nt("iupac_rare_letter")
    if any(c.islower() for c in g):
        ctx.nt("lowercase")
    if "-" in g:
        ctx.label("gap_char")
    if "U" in g.upper():
        ctx.label("uracil")
    if rm.has_self_overlap(L["blocks"]):
        ctx.nt("overlapping_blocks")
    ctx.label("alphabet:" + spec["alphabet"])


def check_extract(spec, ctx):
    labels(ctx, spec)
    g, alpha, L = spec["genome"], spec["alphabet"], spec["loc"]
    rtype = spec.get("root_type")
    if max(b[1] for b in L["blocks"]) > max(L["blocks"], key=lambda b: (b[0], b[1]))[1]:
        ctx.label("last_block_nested")
    if spec.get("decoy") and L["strand"] != "." and len(g) > 1:
        # another molecule with the same name, type, alphabet and length but other bases (another strain's "chr1", an edited copy)
        # was read at the very same coordinates just before: nothing of it may show through
        g2 = g[1:] + g[:1]
        if g2 == g:
            g2 = rm.revcomp(g)[::-1] if set(g.upper()) <= set("ACGTUN-") else g
        if g2 != g:
            try:
                mkloc(L, root_parent(g2, alpha, rtype)).extract_sequence()
                ctx.label("decoy_molecule_read_first")
            except Exception:
                pass
    if rtype:
        ctx.label("typed_root:" + rtype)
    root = root_parent(g, alpha, rtype)
    loc = mkloc(L, root)
    pos = rm.positions(L["blocks"], L["strand"])
    if L["strand"] == ".":
        if len(rm.loc_blocks(loc)) > 1 or True:
            # asked three times: a refusal is not a one-off (the first failed attempt leaves nothing behind that answers later)
            for attempt in range(3):
                try:
                    s = loc.extract_sequence()
                    ctx.fail("extract_unstranded_accepted" if attempt == 0 else "extract_unstranded_accepted_on_a_later_attempt", str(s))
                except InvalidStrandException:
                    if attempt == 0:
                        ctx.refuse("unstranded")
        return
    if len(rm.sorted_blocks(L["blocks"])) >= 1 and not any(b[1] == b[0] for b in L["blocks"]):
        # the same location assembled from a working list of single intervals that the caller goes on using afterwards
        from inscripta.biocantor.location.location_impl import CompoundInterval as _CI, SingleInterval as _SI
        ivs = [_SI(s_, e_, STRAND[L["strand"]], root) for s_, e_ in sorted(map(tuple, L["blocks"]))]
        try:
            assembled = _CI.from_single_intervals(ivs)
            ivs.append(_SI(0, 1, STRAND[L["strand"]], root))
            ivs.reverse()
            del ivs[1:]
            ctx.eq("extract_image_of_location_assembled_from_a_list_edited_later", str(assembled.extract_sequence()), rm.seq_image(g, pos, L["strand"]))
        except ValueError:
            pass
    seq = loc.extract_sequence()
    # fixed-size windows along the location spell the corresponding pieces of its sequence (window j of scan_windows(size, step)
    # is the location of characters [j*step, j*step + size) of the extracted sequence)
    if not rm.has_self_overlap(L["blocks"]) and len(pos) >= 2:
        whole = rm.seq_image(g, pos, L["strand"])
        for size, step in ((1, 1), (2, 1), (3, 1), (3, 2), (5, 3)):
            if size > len(pos):
                continue
            try:
                wins = list(loc.scan_windows(size, step, 0))
            except ValueError as e:
                ctx.fail("scan_windows_refused_valid_arguments", {"args": [size, step], "exc": repr(e)[:80]})
                continue
            ctx.eq("window_sequences_are_pieces_of_the_sequence", [str(w.extract_sequence()) for w in wins],
                   [whole[i:i + size] for i in range(0, len(pos) - size + 1, step)], extra=[size, step])
    ctx.true("extract_type", type(seq) is Sequence, type(seq).__name__)
    exp = rm.seq_image(g, pos, L["strand"])
    ctx.eq("extract_image", str(seq), exp)
    ctx.eq("extract_len", len(seq), len(pos))
    ctx.eq("extract_alphabet", seq.alphabet.name, alpha)
    # character i of the sequence is the base (complemented on minus) at the parent position the location's own coordinate map
    # names for relative position i - also asked AFTER the extraction, for nested and staggered blocks too
    try:
        via_map = [loc.relative_to_parent_pos(i) for i in range(len(pos))]
        if ctx.true("coordinate_map_inside_sequence", all(0 <= p_ < len(g) for p_ in via_map), via_map):
            ctx.eq("sequence_agrees_with_coordinate_map", str(seq), rm.seq_image(g, via_map, L["strand"]), extra=via_map)
    except Exception as e:
        ctx.fail("coordinate_map_raises_after_extraction", repr(e)[:100])
    # second call (cached for single intervals) gives the same
    ctx.eq("extract_repeat", str(loc.extract_sequence()), exp)
    # reversing the strand reverse-complements
    rc = loc.reverse_strand().extract_sequence()
    ctx.eq("reverse_strand_image", str(rc), rm.seq_image(g, rm.positions(L["blocks"], rm.flip(L["strand"])), rm.flip(L["strand"])))
    # ... which is the reverse complement of the extracted sequence (U and T denote the same base: complement(A) is T)
    ctx.eq("reverse_strand_revcomp", _u2t(str(rc)), _u2t(rm.revcomp(exp)))
    ctx.eq("sequence_reverse_complement", str(seq.reverse_complement()), rm.revcomp(exp))
    # splitting into consecutive relative sub-intervals splits the sequence
    n = len(pos)
    if rm.has_self_overlap(L["blocks"]):
        return  # sub-intervals of self-overlapping locations: C01 finding F1 (order not representable)
    cuts = sorted(set(c % (n + 1) for c in spec["cuts"]) | {0, n})
    pieces = []
    for a, b in zip(cuts, cuts[1:]):
        sub = loc.relative_interval_to_parent_location(a, b, STRAND["+"])
        ps = str(sub.extract_sequence())
        ctx.eq("split_piece", ps, exp[a:b], extra=[a, b])
        pieces.append(ps)
        # opposite relative strand = reverse complement of the piece
        sub_m = loc.relative_interval_to_parent_location(a, b, STRAND["-"])
        ctx.eq("split_piece_minus", _u2t(str(sub_m.extract_sequence())), _u2t(rm.revcomp(exp[a:b])), extra=[a, b])
    ctx.eq("split_concat", "".join(pieces), exp)
    if len(cuts) > 2:
        ctx.label("split_inside")


def _u2t(s):
    return s.replace("U", "T").replace("u", "t")


def consistent(ctx, clause, D, genome, expect_str=None, zero_ok=True):
    """recorded location of a derived Sequence is consistent with its characters"""
    if expect_str is not None:
        ctx.eq(clause + ":string", str(D), expect_str)
    if D.parent is None or D.parent.location is None:
        if len(D) == 0 and zero_ok:
            ctx.label("zero_length_lost_location")
            return False
        ctx.fail(clause + ":location_lost", str(D))
        return False
    Lo = D.parent.location
    img = rm.seq_image(genome, rm.loc_positions(Lo), rm.loc_strand(Lo))
    ctx.eq(clause + ":location_consistent", _u2t(img), _u2t(str(D)), extra={"loc": str(Lo)})
    ctx.true(clause + ":location_on_root", Lo.parent is not None and Lo.parent.id == "root", repr(Lo.parent)[:80])
    # ... and the recorded location, read on the parent it hangs on, spells the characters (the parent is THIS molecule, not another
    # one of the same name and length met earlier in the process)
    if Lo.parent is not None and Lo.parent.sequence is not None and rm.loc_strand(Lo) != ".":
        try:
            ctx.eq(clause + ":location_extracts_its_characters", _u2t(str(Lo.extract_sequence())), _u2t(str(D)), extra={"loc": str(Lo)})
        except Exception as e:
            ctx.fail(clause + ":location_extract_raises", repr(e)[:100])
    return True


def norm_slice(a, b, n):
    return slice(a, b).indices(n)[:2]


def check_derived(spec, ctx):
    labels(ctx, spec)
    g, alpha, L = spec["genome"], spec["alphabet"], spec["loc"]
    pos = rm.positions(L["blocks"], L["strand"])
    if spec.get("decoy") and len(g) > 1:
        # another molecule of the same name, type, alphabet and length but other bases (an edited or soft-masked copy) carried the
        # same located sequence, sliced and reverse-complemented, just before
        g2 = g[1:] + g[:1]
        if g2 != g:
            try:
                img2 = rm.seq_image(g2, pos, L["strand"])
                Sq2 = Sequence(img2, Alphabet[alpha], parent=Parent(location=mkloc(L, root_parent(g2, alpha))))
                Sq2[1:], Sq2[:-1], Sq2.reverse_complement()
                Sq2.parent.location.extract_sequence()
                ctx.label("decoy_molecule_read_first")
            except Exception:
                pass
    root = root_parent(g, alpha)
    loc = mkloc(L, root)
    img = rm.seq_image(g, pos, L["strand"])
    Sq = Sequence(img, Alphabet[alpha], parent=Parent(location=loc))
    consistent(ctx, "constructed", Sq, g, img)
    cur, cur_str = Sq, img
    for op in spec["ops"]:
        n = len(cur_str)
        kind = op[0]
        try:
            if kind == "slice":
                a, b = op[1], op[2]
                key = slice(a, b)
                exp = cur_str[key]
                a2, b2 = norm_slice(a, b, n)
                if a is None or b is None:
                    ctx.label("open_ended_slice")
                if (a is not None and a < 0) or (b is not None and b < 0):
                    ctx.label("negative_bound")
                if L["strand"] == "-" and 0 < a2 and b2 < n:
                    ctx.label("slice_of_minus")
                try:
                    nxt = cur[key]
                except (InvalidPositionException, ValueError):
                    # zero-length / inverted requests may be refused
                    ctx.true("slice_refused_nonempty", len(exp) == 0 or a2 > n or b2 > n, {"key": [a, b], "n": n})
                    ctx.refuse("zero_length_slice")
                    continue
                consistent(ctx, "slice", nxt, g, exp)
                cur, cur_str = nxt, exp
            elif kind == "step":
                a, b, stp = op[1], op[2], op[3]
                key = slice(a, b, stp)
                exp = cur_str[key]
                ctx.label("stepped_slice")
                try:
                    nxt = cur[key]
                except (InvalidPositionException, ValueError):
                    ctx.refuse("stepped_slice_refused")
                    continue
                if len(exp) == 0:
                    continue
                consistent(ctx, "stepped_slice", nxt, g, exp)
                return  # a stepped slice ends the chain (its recorded location is the subject of finding F3)
            elif kind == "index":
                if n == 0:
                    continue
                i = op[1] % (2 * n) - n  # in [-n, n)
                exp = cur_str[i]
                if i < 0:
                    ctx.label("negative_index")
                nxt = cur[i]
                consistent(ctx, "index", nxt, g, exp)
                cur, cur_str = nxt, exp
            elif kind == "rc":
                exp = rm.revcomp(cur_str)
                nxt = cur.reverse_complement()
                if consistent(ctx, "reverse_complement", nxt, g, exp):
                    ctx.label("rc_with_location")
                cur, cur_str = nxt, exp
            elif kind == "append":
                # split cur into X=cur[a:b], Y=cur[c:d] with b<=c and append them
                if n < 2:
                    continue
                pts = sorted(p % (n + 1) for p in op[1:5])
                a, b, c, d = pts
                if a == b or c == d:
                    continue
                X, Y = cur[a:b], cur[c:d]
                if X.parent is None or Y.parent is None or X.parent.location is None or Y.parent.location is None:
                    continue
                exp = cur_str[a:b] + cur_str[c:d]
                # appending is documented for pieces in 5'->3' order on one strand; cur may be on either strand of root
                try:
                    nxt = X.append(Y)
                except ValueError:
                    # refused: the order rule is expressed on parent coordinates; multi-block pieces that interleave
                    # cannot be ordered.  Only a refusal of plainly ordered pieces is a violation.
                    lx, ly = X.parent.location, Y.parent.location
                    ordered = (lx.end <= ly.start) if rm.loc_strand(lx) == "+" else (lx.start >= ly.end)
                    ctx.true("append_refused_ordered_pieces", not ordered, {"x": str(lx), "y": str(ly)})
                    ctx.refuse("append_unordered")
                    continue
                if c > b:
                    ctx.label("append_across_gap")
                if rm.loc_strand(X.parent.location) == "-":
                    ctx.label("append_minus")
                consistent(ctx, "append", nxt, g, exp)
                # pieces that cannot be one stretch of the parent are refused, or (if accepted) the result is still consistent: the
                # same two pieces in the WRONG order, and a piece of another alphabet
                for nm_, thunk, want in (("reversed_order", lambda: Y.append(X), cur_str[c:d] + cur_str[a:b]),
                                         ("other_alphabet", lambda: X.append(Sequence(str(Y), Alphabet.NT_EXTENDED if alpha != "NT_EXTENDED" else Alphabet.NT_STRICT_GAPPED, parent=Y.parent)), None)):
                    try:
                        bad = thunk()
                    except ValueError:
                        ctx.label("incompatible_append_refused:" + nm_)
                        continue
                    except BioCantorException:
                        continue
                    if want is None:
                        ctx.fail("append_of_another_alphabet_accepted", str(bad)[:40])
                    elif c > b or len(rm.blocks_of_set(set(rm.loc_positions(X.parent.location)) | set(rm.loc_positions(Y.parent.location)))) >= 1:
                        # accepted: then it must be a sequence whose recorded location spells it
                        consistent(ctx, "append_in_the_wrong_order_accepted", bad, g, want, zero_ok=False)
                cur, cur_str = nxt, exp
        except BioCantorException as e:
            # a documented refusal of a well-formed request is only acceptable for zero-length material
            if len(cur_str) == 0:
                ctx.refuse("zero_length_material")
                return
            raise
        if cur.parent is None or cur.parent.location is None:
            return


# ------------------------------------------------------------------------------------ strategies


@st.composite
def base_spec(draw, tier, strands):
    big = tier == "thorough"
    alpha = draw(st.sampled_from(NT_ALPHABETS))
    L = draw(S.location_spec(max_k=5 if big else 4, allow_overlap=draw(st.integers(0, 6)) == 0, allow_nested=True, max_len=8, shift_prob=0, strands=strands))
    last = max(L["blocks"], key=lambda b: (b[0], b[1]))
    if last[1] - last[0] >= 3 and draw(st.integers(0, 7)) == 0:
        # a block nested strictly inside the last-starting block: it starts last and ends before an earlier block does
        # (the location's end is then not the end of its last block)
        a = draw(st.integers(last[0] + 1, last[1] - 2))
        L["blocks"].append([a, draw(st.integers(a + 1, last[1] - 1))])
        L["order"] = [len(L["blocks"]) - 1] + L["order"] if draw(st.booleans()) else L["order"] + [len(L["blocks"]) - 1]
    hi = max(b[1] for b in L["blocks"])
    n = hi + draw(st.integers(0, 4))
    g = draw(S.genome(n, alpha, mixed_case=draw(st.booleans())))
    return {"alphabet": alpha, "genome": g, "loc": L, "root_type": draw(st.sampled_from([None, "chromosome", "chromosome", "contig"])), "decoy": draw(st.booleans())}


@st.composite
def strat_extract(draw, tier="quick"):
    sp = draw(base_spec(tier, ["+", "-", "+", "-", "+", "-", "."]))
    sp["cuts"] = draw(st.lists(st.integers(0, 60), min_size=0, max_size=4))
    return sp


@st.composite
def strat_derived(draw, tier="quick"):
    sp = draw(base_spec(tier, ["+", "-"]))
    if sum(b[1] - b[0] for b in sp["loc"]["blocks"]) == 0:
        sp["loc"]["blocks"][0][1] += 1
        sp["genome"] = sp["genome"] + "A"
    # self-overlapping recorded locations: F1 (C01) makes sub-interval order unrepresentable; not generated here
    ne = rm.sorted_blocks(sp["loc"]["blocks"])
    fixed = []
    prev = None
    for b in sorted(sp["loc"]["blocks"]):
        b = list(b)
        if prev is not None and b[0] < prev and b[1] > b[0]:
            shift = prev - b[0]
            b = [b[0] + shift, b[1] + shift]
        fixed.append(b)
        if b[1] > b[0]:
            prev = b[1]
    sp["loc"]["blocks"] = fixed
    need = max(b[1] for b in fixed)
    if len(sp["genome"]) < need:
        sp["genome"] = sp["genome"] + "A" * (need - len(sp["genome"]))
    n = sum(b[1] - b[0] for b in fixed)
    bound = st.one_of(st.none(), st.integers(-n - 1, n + 1))
    op = st.one_of(
        st.tuples(st.just("slice"), st.integers(0, n), st.integers(0, n)).map(lambda t: [t[0], min(t[1], t[2]), max(t[1], t[2])]),
        st.tuples(st.just("slice"), bound, bound).map(list),
        st.tuples(st.just("index"), st.integers(0, 200)).map(list),
        st.just(["rc"]),
        st.tuples(st.just("append"), st.integers(0, 99), st.integers(0, 99), st.integers(0, 99), st.integers(0, 99)).map(list),
        st.tuples(st.just("step"), st.integers(0, n), st.integers(0, n), st.sampled_from([2, 3, -1])).map(list),
    )
    sp["ops"] = draw(st.lists(op, min_size=1, max_size=3))
    return sp


def pred_tie_on_start(spec, clause, detail):
    """two non-empty blocks share their start but not their end (the canonical block order breaks that tie by end
    ascending on plus and descending on minus, so the minus scan is not the mirror image of the plus scan)"""
    ne = rm.sorted_blocks(spec["loc"]["blocks"])
    return any(a[0] == b[0] and a[1] != b[1] for a in ne for b in ne)


def pred_step(spec, clause, detail):
    return any(op[0] == "step" for op in spec.get("ops", []))


EX_EXTRACT = [
    {"alphabet": "NT_EXTENDED", "genome": "ACGTUNWSMKRYBDHVacgtunwsmkrybdhv", "loc": {"blocks": [[0, 16], [16, 32]], "strand": "-", "order": [1, 0], "shift": 0, "compound": True}, "cuts": [5, 16, 20]},
    {"alphabet": "NT_EXTENDED_GAPPED", "genome": "AC-GTKMBV-dhvkm", "loc": {"blocks": [[1, 4], [6, 9], [10, 15]], "strand": "-", "order": [0, 2, 1], "shift": 0, "compound": True}, "cuts": [3, 4]},
    {"alphabet": "NT_STRICT_UNKNOWN", "genome": "ANNGTCnnacgt", "loc": {"blocks": [[0, 12]], "strand": "-", "order": [0], "shift": 0, "compound": False}, "cuts": [6]},
]
EX_DERIVED = [
    {"alphabet": "NT_STRICT", "genome": "ACGTTGCAAGGCTTAACC", "loc": {"blocks": [[2, 5], [8, 12]], "strand": "-", "order": [0, 1], "shift": 0, "compound": True},
     "ops": [["slice", 1, 6], ["rc"], ["append", 0, 2, 3, 5]]},
    {"alphabet": "NT_STRICT", "genome": "ACGTTGCAAGGCTTAACC", "loc": {"blocks": [[2, 5], [8, 12]], "strand": "-", "order": [0, 1], "shift": 0, "compound": True},
     "ops": [["slice", None, 3]]},
    {"alphabet": "NT_STRICT", "genome": "ACGTTGCAAGGCTTAACC", "loc": {"blocks": [[2, 5], [8, 12]], "strand": "+", "order": [0, 1], "shift": 0, "compound": True},
     "ops": [["slice", -4, None], ["index", 3]]},
]

PROP = Prop(
    pid="C03",
    legs=[
        Leg("extract", check_extract, strategy=strat_extract, examples=EX_EXTRACT, n_quick=1500, n_thorough=15000,
            must_hit=["minus&multiblock", "iupac_rare_letter", "lowercase", "split_inside", "gap_char", "uracil"],
            rule="locations (C01 layouts incl. empty/adjacent/overlapping blocks, +/-/unstranded) over random genomes of each of the 5 nucleotide alphabets with IUPAC codes, gaps and lower case; extraction, strand reversal, splitting at random cut points"),
        Leg("derived", check_derived, strategy=strat_derived, examples=EX_DERIVED, n_quick=1500, n_thorough=15000,
            must_hit=["slice_of_minus", "append_minus", "append_across_gap", "open_ended_slice", "negative_bound", "rc_with_location", "negative_index"],
            rule="sequences constructed with a recorded location on a root (chunk idiom), then 1..3 of: slice (explicit, open-ended and negative bounds), integer index, reverse complement, append of two slices (adjacent or across a gap), stepped slice"),
    ],
    rule="Oracle: SeqModel = parent[pos[i]] complemented with a typed-in IUPAC table on the minus strand. Non-trivial: minus strand "
         "with >=2 blocks, or ambiguity / lower-case letters present, or overlapping blocks. Distinct = canonical JSON of the spec.",
    assumptions=[
        "extract_sequence() results carry no parent location, so the bookkeeping clause is exercised on sequences constructed with a recorded location and on everything derived from them",
        "zero-length pieces may be refused or lose their location (a zero-length Location is falsy)",
        "recorded locations with self-overlapping blocks are not generated for the derived leg (C01 finding F1)",
    ],
    predicates={"stepped_slice": pred_step, "tie_on_start": pred_tie_on_start},
)
