"""Shared Hypothesis strategies.  All of them produce plain JSON-able specs (ints, strings, lists, dicts)."""
from hypothesis import strategies as st

STRANDS_DIR = ["+", "-"]
STRANDS_ALL = ["+", "-", "."]


@st.composite
def layout(draw, max_k=5, allow_empty=True, allow_adjacent=True, allow_overlap=False, max_len=8, max_gap=6,
           max_start=6, min_k=1, allow_nested=False):
    """Constructive block layout: ascending list of [start, end].
    Non-empty blocks have strictly increasing starts and strictly increasing ends (staggered overlaps only).
    Empty blocks (when allowed) are placed at coordinates not strictly inside a non-empty block
    (block boundaries, gaps, before the first or after the last block)."""
    k = draw(st.integers(min_k, max_k))
    n_empty = 0
    if allow_empty and k > 1:
        n_empty = draw(st.sampled_from([0, 0, 0, 0, 1, 1, 2]))
        n_empty = min(n_empty, k - 1)
    start = draw(st.integers(0, max_start))
    blocks = []
    prev_s = prev_e = None
    gaps = list(range(0 if allow_adjacent else 1, max_gap + 1)) + ([0, 1] if allow_adjacent else [1, 2])
    if allow_overlap:
        gaps = gaps + [-3, -2, -1, -1]
    for i in range(k - n_empty):
        if prev_e is None:
            s = start
        else:
            s = prev_e + draw(st.sampled_from(gaps))
            if s <= prev_s:
                s = prev_s + 1
        e = s + draw(st.integers(1, max_len))
        if prev_e is not None and e <= prev_e:
            if allow_nested and draw(st.booleans()):
                # nested block (contained in the previous one, possibly sharing its start or end)
                if draw(st.integers(0, 3)) == 0:
                    s = prev_s
                blocks.append([s, e])
                continue
            e = prev_e + 1
        blocks.append([s, e])
        prev_s, prev_e = s, e
    if n_empty:
        lo, hi = max(0, blocks[0][0] - 2), blocks[-1][1] + 2
        cands = [c for c in range(lo, hi + 1) if not any(b[0] < c < b[1] for b in blocks)]
        for _ in range(n_empty):
            c = draw(st.sampled_from(cands))
            blocks.append([c, c])
        blocks.sort(key=lambda b: (b[0], b[1]))
    return blocks


@st.composite
def location_spec(draw, strands=STRANDS_DIR, shift_prob=10, **kw):
    blocks = draw(layout(**kw))
    strand = draw(st.sampled_from(strands))
    order = draw(st.permutations(list(range(len(blocks))))) if len(blocks) > 1 else [0]
    shift = 0
    if shift_prob and draw(st.integers(0, shift_prob - 1)) == 0:
        shift = draw(st.sampled_from([1000, 2 ** 17 - 3, 2 ** 31]))
    compound = draw(st.booleans())
    return {"blocks": blocks, "strand": strand, "order": list(order), "shift": shift, "compound": compound}


ALPHABETS = {
    "NT_STRICT": "ACGT",
    "NT_EXTENDED": "ATUCGNWSMKRYBDHV",
    "NT_STRICT_GAPPED": "ACGT-",
    "NT_EXTENDED_GAPPED": "ATUCGNWSMKRYBDHV-",
    "NT_STRICT_UNKNOWN": "ATGCN",
}


@st.composite
def genome(draw, n, alphabet="NT_STRICT", mixed_case=False):
    letters = ALPHABETS[alphabet]
    if mixed_case:
        letters = letters + letters.lower().replace("-", "")
    return "".join(draw(st.lists(st.sampled_from(letters), min_size=n, max_size=n)))


def dna(n_min, n_max):
    return st.text(alphabet="ACGT", min_size=n_min, max_size=n_max)


@st.composite
def chunk_flavour(draw):
    """how a sequence chunk is presented: the chunk may be the reverse complement of its window, and its Parent may be built by
    seq_chunk_to_parent (ids carry the window) or by hand as in the liftover docstring (no ids)"""
    return {"chunk_strand": draw(st.sampled_from(["+", "+", "-"])), "chunk_idiom": draw(st.sampled_from(["api", "api", "docstring"]))}


# ------------------------------------------------------------------------------------------------
# coding intervals


@st.composite
def cds_spec(draw, max_k=5, frameshift_prob=4, ambiguous_prob=6, max_len=10, pad=4, overlap_prob=0):
    """CDS layout (1..k blocks, 0-bp gaps allowed) x strand x start offset, frames of one reading frame
    (refmodel.frames_from_offset) optionally with one entry perturbed (programmed frameshift), genome."""
    from harness import refmodel as rm

    # overlapping blocks (bases read twice) are the documented model of a -1 / -2 programmed frameshift
    blocks = draw(layout(max_k=max_k, allow_empty=False, allow_adjacent=True, allow_overlap=bool(overlap_prob) and draw(st.integers(0, overlap_prob - 1)) == 0,
                         max_len=max_len, max_gap=5))
    strand = draw(st.sampled_from(["+", "-"]))
    offset = draw(st.sampled_from([0, 0, 1, 2]))
    frames = rm.frames_from_offset(blocks, strand, offset)
    shifted = False
    if len(blocks) > 1 and draw(st.integers(0, frameshift_prob - 1)) == 0:
        # one, sometimes two programmed frameshifts
        for _ in range(draw(st.sampled_from([1, 1, 2]))):
            i = draw(st.integers(0, len(blocks) - 1))
            frames[i] = (frames[i] + draw(st.sampled_from([1, 2]))) % 3
        shifted = True
    if any(blocks[i][1] > blocks[i + 1][0] for i in range(len(blocks) - 1)) and not rm.order_representable(rm.cleaned_blocks(blocks, strand, frames)):
        # trimming a block inside an overlap (start offset / re-synchronisation) can leave remainders whose 5'->3' order a
        # Location cannot represent (it sorts its blocks by start; C01 findings F1/F25): such layouts keep one uninterrupted frame
        offset, shifted = 0, False
        frames = rm.frames_from_offset(blocks, strand, 0)
    if any(blocks[i][1] > blocks[i + 1][0] for i in range(len(blocks) - 1)) and not rm.codons_representable(rm.frame_walk(blocks, strand, frames)[0], strand):
        # a codon that straddles the overlap can have two runs that tie on start; the canonical block order of a minus-strand
        # Location then reads them in the other order (finding F25): the layout is kept without its overlap
        blocks = [[b[0], min(b[1], blocks[i + 1][0])] if i + 1 < len(blocks) else b for i, b in enumerate(blocks)]
        offset, shifted = 0, False
        frames = rm.frames_from_offset(blocks, strand, 0)
    n = blocks[-1][1] + draw(st.integers(0, pad))
    alphabet = "ACGT"
    if draw(st.integers(0, ambiguous_prob - 1)) == 0:
        alphabet = "ACGTNRY"
    g = "".join(draw(st.lists(st.sampled_from(alphabet), min_size=n, max_size=n)))
    if draw(st.integers(0, 2)) == 0:
        # codon-aware genome: an initiator of some translation table as first codon, a stop as last / in the middle, so that the
        # start-codon rule per table, truncation and the stop predicates are exercised often (random ACGT gives each ~1/20)
        codons, _ = rm.frame_walk(blocks, strand, frames)
        gl = list(g)

        def plant(cod, triplet):
            for p_, ch in zip(cod, triplet):
                if 0 <= p_ < len(gl):
                    gl[p_] = ch if strand == "+" else rm.comp_char(ch)
        if codons:
            plant(codons[0], draw(st.sampled_from(["TTG", "CTG", "GTG", "ATT", "ATC", "ATA", "ATG", "TTG"])))
        if len(codons) > 2 and draw(st.booleans()):
            plant(codons[1 + draw(st.integers(0, len(codons) - 3))], draw(st.sampled_from(["TAA", "TAG", "TGA"])))
        if len(codons) > 1 and draw(st.booleans()):
            plant(codons[-1], draw(st.sampled_from(["TAA", "TAG", "TGA"])))
        g = "".join(gl)
    return {"blocks": blocks, "strand": strand, "offset": offset, "frames": frames, "frameshift": shifted, "genome": g}


# ------------------------------------------------------------------------------------------------
# transcripts / features / genes

IDENT = st.text(alphabet="abcdefghijklmnopqrstuvwxyzABCDEFGHIJKLMNOPQRSTUVWXYZ0123456789_.", min_size=1, max_size=8)
CODING_BIOTYPES = ["protein_coding", "mRNA"]
NONCODING_BIOTYPES = ["ncRNA", "tRNA", "rRNA", "lncRNA", "misc_RNA", "snoRNA", "pseudogene", "transcript"]


def nest_block(draw, blocks, prob=5):
    """one time in `prob`: add a block nested strictly inside one of the blocks (overlapping blocks are documented as valid; a
    later-starting block then ends before an earlier one, so starts and ends are not sorted alike). Edits `blocks` in place."""
    if draw(st.integers(0, prob - 1)):
        return False
    cands = [b for b in blocks if b[1] - b[0] >= 3]
    if not cands:
        return False
    b = draw(st.sampled_from(cands))
    a = draw(st.integers(b[0] + 1, b[1] - 2))
    blocks.append([a, draw(st.integers(a + 1, b[1] - 1))])
    blocks.sort(key=lambda x: (x[0], x[1]))
    return True


def add_case_variant_key(draw, spec_obj, prob=4):
    """one time in `prob`: some non-empty qualifiers dictionary inside the spec gets a second key that differs from an existing one
    only in letter case, with values of its own ('note' from GenBank next to 'Note' from GFF3): two keys, two value sets"""
    if draw(st.integers(0, prob - 1)):
        return False
    found = []

    def walk(d):
        if isinstance(d, dict):
            q = d.get("qualifiers")
            if isinstance(q, dict) and q:
                found.append(q)
            for v in d.values():
                walk(v)
        elif isinstance(d, list):
            for v in d:
                walk(v)
    walk(spec_obj)
    if not found:
        return False
    q = draw(st.sampled_from(found))
    k = draw(st.sampled_from(sorted(q)))
    k2 = draw(st.sampled_from([k.capitalize(), k.upper(), k[0] + k[1:].upper()]))
    if k2 == k or k2 in q:
        return False
    q[k2] = [v + "2" for v in q[k]][:2] + draw(st.lists(st.sampled_from(["alt", "other value", "x1"]), max_size=1))
    return True


@st.composite
def simple_qualifiers(draw, max_keys=3):
    keys = draw(st.lists(st.sampled_from(["note", "color", "evidence", "db_xref", "inference", "xkey", "identity", "names"]), max_size=max_keys, unique=True))
    q = {}
    for k in keys:
        vals = draw(st.lists(st.text(alphabet="abcdefghijklmnopqrstuvwxyz0123456789 _-", min_size=1, max_size=8), min_size=1, max_size=3, unique=True))
        if draw(st.integers(0, 4)) == 0:
            # near-duplicate values: distinct strings that tie under a sloppy comparison (case, separators, numeric form, prefix)
            w = vals[0]
            fam = [w, w.upper(), w.capitalize(), w + " ", w.replace(" ", "_") + "x", "0" + w]
            for extra in draw(st.lists(st.sampled_from(fam), min_size=1, max_size=3, unique=True)):
                if extra not in vals and extra.strip():
                    vals.append(extra)
        q[k] = vals
    return q


@st.composite
def transcript_spec(draw, max_exons=5, coding=None, max_len=10, zero_gap_cds=True, strand=None, start_min=0, start_max=8,
                    frameshift_prob=8, with_ids=True, qualifiers=True, cds_gap_prob=0, adjacent_exons=False, cds_overlap_prob=0, unstranded_prob=0, min_exons=1):
    """exon layout + optional CDS chosen as a contiguous run [i,j) in transcript coordinates (boundary-biased)"""
    from harness import refmodel as rm

    exons = draw(layout(max_k=max_exons, min_k=min_exons, allow_empty=False, allow_adjacent=adjacent_exons, allow_overlap=False, max_len=max_len,
                        max_gap=6, max_start=start_max))
    if start_min:
        exons = [[s + start_min, e + start_min] for s, e in exons]
    explicit_strand = strand is not None
    strand = strand or draw(st.sampled_from(["+", "-"]))
    T = rm.positions(exons, strand)
    n = len(T)
    is_coding = draw(st.booleans()) if coding is None else coding
    if unstranded_prob and not is_coding and not explicit_strand and draw(st.integers(0, unstranded_prob - 1)) == 0:
        strand = "."   # a non-coding transcript model without direction
    sp = {"exons": exons, "strand": strand}
    if is_coding:
        bounds = [0, n]
        off = 0
        for s, e in (exons if strand == "+" else list(reversed(exons))):
            off += e - s
            bounds.append(off)
        mode = draw(st.integers(0, 7))
        if mode == 0:
            i, j = 0, n
        elif mode == 1:
            i, j = 0, draw(st.integers(1, n))
        elif mode == 2:
            i, j = draw(st.integers(0, n - 1)), n
        elif mode == 3:
            a, b = draw(st.sampled_from(bounds)), draw(st.sampled_from(bounds))
            i, j = min(a, b), max(a, b)
        else:
            a, b = draw(st.integers(0, n)), draw(st.integers(0, n))
            i, j = min(a, b), max(a, b)
        if i == j:
            if j < n:
                j += 1
            else:
                i -= 1
        cset = set(T[i:j])
        cds_blocks = []
        for s, e in exons:
            ps = [p for p in range(s, e) if p in cset]
            if ps:
                cds_blocks.append([min(ps), max(ps) + 1])
        if zero_gap_cds and draw(st.integers(0, 5)) == 0:
            # split one CDS block into two adjacent blocks (0-bp gap)
            cand = [k for k, b in enumerate(cds_blocks) if b[1] - b[0] >= 2]
            if cand:
                k = draw(st.sampled_from(cand))
                b = cds_blocks[k]
                cut = draw(st.integers(b[0] + 1, b[1] - 1))
                cds_blocks[k:k + 1] = [[b[0], cut], [cut, b[1]]]
        gapped = False
        if cds_gap_prob and draw(st.integers(0, cds_gap_prob - 1)) == 0:
            # +1 programmed frameshift as BioCantor documents it: one base *inside an exon* is skipped by the CDS
            cand = [k for k, b in enumerate(cds_blocks) if b[1] - b[0] >= 3]
            if cand:
                k = draw(st.sampled_from(cand))
                b = cds_blocks[k]
                m = draw(st.integers(b[0] + 1, b[1] - 2))
                cds_blocks[k:k + 1] = [[b[0], m], [m + 1, b[1]]]
                gapped = True
        overlapped = False
        if cds_overlap_prob and not gapped and draw(st.integers(0, cds_overlap_prob - 1)) == 0:
            # -1 / -2 programmed frameshift as BioCantor documents it: two CDS blocks that overlap by one or two bases (read twice)
            cand = [k for k, b in enumerate(cds_blocks) if b[1] - b[0] >= 3]
            if cand:
                k = draw(st.sampled_from(cand))
                b = cds_blocks[k]
                m = draw(st.integers(b[0] + 2, b[1] - 1))
                d = draw(st.sampled_from([1, 1, 2])) if m - 2 > b[0] else 1
                cds_blocks[k:k + 1] = [[b[0], m], [m - d, b[1]]]
                overlapped = True
        offset = draw(st.sampled_from([0, 0, 0, 1, 2]))
        frames = rm.frames_from_offset(cds_blocks, strand, offset)
        fs = False
        if frameshift_prob and len(cds_blocks) > 1 and draw(st.integers(0, frameshift_prob - 1)) == 0:
            k = draw(st.integers(0, len(cds_blocks) - 1))
            frames[k] = (frames[k] + draw(st.sampled_from([1, 2]))) % 3
            fs = True
        if overlapped:
            def _ok():
                return rm.order_representable(rm.cleaned_blocks(cds_blocks, strand, frames)) and rm.codons_representable(rm.frame_walk(cds_blocks, strand, frames)[0], strand)
            if not _ok():
                # trimming inside the overlap / a codon straddling it can be unrepresentable as a Location (C01 F1/F25): keep one
                # uninterrupted frame, and if that does not help drop the overlap
                offset, fs = 0, False
                frames = rm.frames_from_offset(cds_blocks, strand, 0)
                if not _ok():
                    merged_ = []
                    for b in cds_blocks:
                        if merged_ and b[0] < merged_[-1][1]:
                            merged_[-1][1] = max(merged_[-1][1], b[1])   # the two overlapping blocks become the one block they were cut from
                        else:
                            merged_.append(list(b))
                    cds_blocks = merged_
                    frames = rm.frames_from_offset(cds_blocks, strand, 0)
                    overlapped = False
        sp.update({"cds": cds_blocks, "frames": frames, "offset": offset, "frameshift": fs, "cds_i": i, "cds_j": j})
        if gapped:
            sp["cds_gapped"] = True
        if overlapped:
            sp["cds_overlapped"] = True
    if with_ids:
        sp["transcript_id"] = draw(st.one_of(st.none(), IDENT))
        sp["transcript_symbol"] = draw(st.one_of(st.none(), IDENT))
        sp["transcript_type"] = draw(st.sampled_from(CODING_BIOTYPES if is_coding else NONCODING_BIOTYPES + [None]))
        sp["protein_id"] = draw(st.one_of(st.none(), IDENT)) if is_coding else None
        sp["product"] = draw(st.one_of(st.none(), IDENT)) if is_coding else None
        sp["is_primary_tx"] = draw(st.sampled_from([None, None, None, False, True]))
    if qualifiers:
        sp["qualifiers"] = draw(simple_qualifiers())
    return sp


@st.composite
def feature_spec(draw, max_blocks=4, max_len=10, strand=None, start_min=0, start_max=8, with_ids=True, qualifiers=True, adjacent_blocks=False, unstranded_prob=0):
    blocks = draw(layout(max_k=max_blocks, allow_empty=False, allow_adjacent=adjacent_blocks, allow_overlap=False, max_len=max_len, max_gap=6, max_start=start_max))
    if start_min:
        blocks = [[s + start_min, e + start_min] for s, e in blocks]
    sp = {"blocks": blocks, "strand": strand or draw(st.sampled_from(["+", "-"]))}
    if unstranded_prob and strand is None and draw(st.integers(0, unstranded_prob - 1)) == 0:
        sp["strand"] = "."   # a feature without direction (binding site, repeat ...): valid wherever no direction is needed
    if with_ids:
        sp["feature_name"] = draw(st.one_of(st.none(), IDENT))
        sp["feature_id"] = draw(st.one_of(st.none(), IDENT))
        sp["feature_types"] = draw(st.one_of(st.none(), st.lists(st.sampled_from(["promoter", "enhancer", "repeat", "misc_feature", "site"]), min_size=1, max_size=2, unique=True)))
        sp["is_primary_feature"] = draw(st.sampled_from([None, None, None, False, True]))
    if qualifiers:
        sp["qualifiers"] = draw(simple_qualifiers())
    return sp


@st.composite
def gene_spec(draw, max_tx=3, same_strand=True, region=None, coding=None, unstranded_gene_prob=0, **txkw):
    """1..max_tx transcripts sharing a locus (region = [lo, hi] start window for the exons)"""
    n = draw(st.integers(1, max_tx))
    strand = draw(st.sampled_from(["+", "-"]))
    if unstranded_gene_prob and coding is not True and draw(st.integers(0, unstranded_gene_prob - 1)) == 0:
        # a gene model without direction: every transcript non-coding and unstranded
        strand, coding = ".", False
    lo = region[0] if region else 0
    txs = []
    for i in range(n):
        s = strand if same_strand or strand == "." or draw(st.integers(0, 2)) else draw(st.sampled_from(["+", "-"]))
        txs.append(draw(transcript_spec(strand=s, start_min=lo, coding=coding, **txkw)))
    # a gene must not hold two identical transcripts nor more than one primary flag (documented preconditions)
    seen_primary = False
    for i, t in enumerate(txs):
        t["transcript_id"] = "tx%d%s" % (i, t.get("transcript_id") or "")
        if t.get("is_primary_tx"):
            if seen_primary:
                t["is_primary_tx"] = None
            seen_primary = True
    g = {"transcripts": txs,
         "gene_id": draw(st.one_of(st.none(), IDENT)), "gene_symbol": draw(st.one_of(st.none(), IDENT)),
         "gene_type": draw(st.sampled_from(["protein_coding", "ncRNA", "pseudogene", "lncRNA", None] if coding is None else (CODING_BIOTYPES if coding else NONCODING_BIOTYPES))),
         "locus_tag": draw(st.one_of(st.none(), IDENT)), "qualifiers": draw(simple_qualifiers(2))}
    return g


@st.composite
def feature_collection_spec(draw, max_feat=3, region=None, **fkw):
    n = draw(st.integers(1, max_feat))
    lo = region[0] if region else 0
    feats = [draw(feature_spec(start_min=lo, **fkw)) for _ in range(n)]
    seen_primary = False
    for i, f in enumerate(feats):
        f["feature_id"] = "f%d%s" % (i, f.get("feature_id") or "")
        if f.get("is_primary_feature"):
            if seen_primary:
                f["is_primary_feature"] = None
            seen_primary = True
    return {"features": feats, "feature_collection_name": draw(st.one_of(st.none(), IDENT)),
            "feature_collection_id": draw(st.one_of(st.none(), IDENT)), "feature_collection_type": draw(st.one_of(st.none(), st.sampled_from(["tfbs", "repeat_region"]))),
            "locus_tag": draw(st.one_of(st.none(), IDENT)), "qualifiers": draw(simple_qualifiers(2))}


@st.composite
def variant_specs(draw, lo, hi, max_n=3, kinds=("snv", "ins", "del", "del_unpadded", "mnv")):
    """1..max_n non-overlapping variants inside [lo, hi); each {start,end,sequence,variant_type}"""
    n = draw(st.integers(1, max_n))
    out = []
    cur = lo
    for _ in range(n):
        if cur >= hi - 1:
            break
        s = draw(st.integers(cur, min(hi - 1, cur + 8)))
        kind = draw(st.sampled_from(kinds))
        if kind == "snv":
            e, alt, vt = s + 1, draw(st.sampled_from("ACGT")), "SNV"
        elif kind == "mnv":
            L = draw(st.integers(2, 3))
            e = min(hi, s + L)
            alt, vt = "".join(draw(st.lists(st.sampled_from("ACGT"), min_size=e - s, max_size=e - s))), "MNV"
        elif kind == "ins":
            e = s + 1
            alt, vt = "".join(draw(st.lists(st.sampled_from("ACGT"), min_size=2, max_size=4))), "insertion"
        elif kind == "del":
            e = min(hi, s + draw(st.integers(2, 4)))
            if e - s < 2:
                continue
            alt, vt = draw(st.sampled_from("ACGT")), "deletion"
        else:
            e = min(hi, s + draw(st.integers(1, 3)))
            alt, vt = "", "deletion"
        if draw(st.integers(0, 4)) == 0:
            # the type label is free text (BioCantor's own VCF conversion labels every non-SNV allele "MNV", other sources write
            # "indel", "complex", ...): the edit is defined by start / end / alternative sequence alone
            vt = draw(st.sampled_from(["MNV", "SNV", "indel", "complex", "sub", ""]))
        out.append({"start": s, "end": e, "sequence": alt, "variant_type": vt})
        cur = e + draw(st.integers(0, 3))
    if not out:
        out.append({"start": lo, "end": lo + 1, "sequence": "A", "variant_type": "SNV"})
    return out


@st.composite
def collection_spec(draw, max_genes=2, max_fcs=2, max_vcs=1, with_variants=True, tx_kw=None, region_step=40, feat_kw=None):
    """annotation collection: genes, feature collections, optional variant collection placed after all other members"""
    tx_kw = tx_kw or {}
    ng = draw(st.integers(0, max_genes))
    nf = draw(st.integers(0 if ng else 1, max_fcs))
    genes, fcs = [], []
    for i in range(ng):
        genes.append(draw(gene_spec(max_tx=2, max_exons=3, max_len=7, region=[draw(st.integers(0, 3)) + i * draw(st.sampled_from([0, 5, region_step])), 0], **tx_kw)))
    for i in range(nf):
        fcs.append(draw(feature_collection_spec(max_feat=2, max_blocks=2, max_len=7, region=[draw(st.integers(0, 60)), 0], **(feat_kw or {}))))
    his = [t["exons"][-1][1] for g_ in genes for t in g_["transcripts"]] + [f["blocks"][-1][1] for c in fcs for f in c["features"]]
    hi = max(his)
    vcs = []
    if with_variants and max_vcs and draw(st.integers(0, 2)) == 0:
        vs = draw(variant_specs(hi + 2, hi + 16, max_n=3))
        for j, v in enumerate(vs):
            v["variant_name"] = draw(st.one_of(st.none(), IDENT))
            v["variant_id"] = "v%d" % j
            v["phase_block"] = draw(st.one_of(st.none(), st.integers(0, 3)))
            v["qualifiers"] = draw(simple_qualifiers(1))
        vcs.append({"variants": vs, "variant_collection_name": draw(st.one_of(st.none(), IDENT)), "variant_collection_id": draw(st.one_of(st.none(), IDENT)),
                    "qualifiers": draw(simple_qualifiers(1))})
        hi = max(hi, max(v["end"] for v in vs))
    # distinct gene/fc content is guaranteed by distinct ids
    for i, g_ in enumerate(genes):
        g_["gene_id"] = "g%d%s" % (i, g_.get("gene_id") or "")
        for t in g_["transcripts"]:  # interval identifiers must be unique within a collection (documented)
            t["transcript_id"] = "g%d%s" % (i, t["transcript_id"])
    for i, c in enumerate(fcs):
        c["feature_collection_id"] = "fc%d%s" % (i, c.get("feature_collection_id") or "")
        for f in c["features"]:
            f["feature_id"] = "c%d%s" % (i, f["feature_id"])
    return {"genes": genes, "feature_collections": fcs, "variant_collections": vcs, "name": draw(st.one_of(st.none(), IDENT)),
            "id": draw(st.one_of(st.none(), IDENT)), "qualifiers": draw(simple_qualifiers(2)), "hi": hi}
