"""Pristine-process server for history-sensitive table checks (C15).

Started once per shard as a fresh interpreter: imports the library's table modules but calls nothing.  For every request
line (a JSON list of calls) it forks; the child performs the calls in order on library state no earlier case has touched,
prints one JSON line with the answers and exits.  So every generated call history starts from the state of a fresh
process, and a replayed history sees exactly what the generated one saw."""
import json
import os
import sys

import harness.compat  # noqa: F401
from inscripta.biocantor.gene.cds_frame import CDSFrame, CDSPhase
from inscripta.biocantor.gene.codon import Codon, TranslationTable
from inscripta.biocantor.location.strand import Strand
from inscripta.biocantor.sequence.alphabet import Alphabet
from inscripta.biocantor.sequence.sequence import Sequence


def call(c):
    op = c[0]
    if op == "syn":
        return sorted(str(x) for x in Codon(c[1]).synonymous_codons(include_self=c[2]))
    if op == "translate":
        return Codon(c[1]).translate(strict=c[2])
    if op == "stop":
        return Codon(c[1]).is_stop_codon
    if op == "strict":
        return Codon(c[1]).is_strict_codon
    if op == "canon":
        return Codon(c[1]).is_canonical_start_codon
    if op == "start":
        return Codon(c[1]).is_start_codon_in_specific_translation_table(TranslationTable[c[2]])
    if op == "str":
        x = Codon(c[1])
        return [str(x), x.value, x.name]
    if op == "shift":
        return CDSFrame[c[1]].shift(c[2]).name
    if op == "to_phase":
        return CDSFrame[c[1]].to_phase().name
    if op == "to_frame":
        return CDSPhase[c[1]].to_frame().name
    if op == "phase_gff":
        return CDSPhase[c[1]].to_gff()
    if op == "rel":
        return Strand[c[1]].relative_to(Strand[c[2]]).name
    if op == "rev":
        return Strand[c[1]].reverse().name
    if op == "symbol":
        return Strand.from_symbol(c[1]).name
    if op == "revcomp":
        return str(Sequence(c[1], Alphabet[c[2]]).reverse_complement())
    if op == "sweep_syn":  # the whole partition, asked after the history
        out = {}
        for a in "ACGT":
            for b in "ACGT":
                for d in "ACGT":
                    k = a + b + d
                    out[k] = [sorted(str(x) for x in Codon(k).synonymous_codons(include_self=True)),
                              sorted(str(x) for x in Codon(k).synonymous_codons(include_self=False)),
                              Codon(k).translate(), Codon(k).is_stop_codon]
        return out
    raise ValueError("unknown op %r" % (op,))


def run(calls):
    out = []
    for c in calls:
        try:
            out.append({"v": call(c)})
        except Exception as e:  # the caller decides what a raised call means
            out.append({"exc": type(e).__name__, "msg": str(e)[:120]})
    return out


def main():
    for line in sys.stdin:
        line = line.strip()
        if not line:
            continue
        r, w = os.pipe()
        pid = os.fork()
        if pid == 0:
            os.close(r)
            try:
                res = json.dumps(run(json.loads(line)))
            except Exception as e:
                res = json.dumps({"error": repr(e)[:300]})
            with os.fdopen(w, "w") as fh:
                fh.write(res)
            os._exit(0)
        os.close(w)
        with os.fdopen(r) as fh:
            res = fh.read()
        os.waitpid(pid, 0)
        sys.stdout.write((res or json.dumps({"error": "child died"})) + "\n")
        sys.stdout.flush()


if __name__ == "__main__":
    main()
