"""Pristine-process server for history-sensitive checks (C15 tables, C10 fresh twins).

usage: python -m harness.zygote <module>

Started once per shard as a fresh interpreter: imports <module> (which must not *call* the library at import time) and
reports the size of the library's process-wide caches, which must be zero.  For every request line (JSON) it forks; the child
calls <module>.zygote_entry(request) on library state that no earlier case has touched, prints one JSON line and exits.
So every request is answered from the state of a fresh process, and a replayed case sees exactly what the generated one saw."""
import importlib
import json
import os
import sys


def cache_sizes():
    from inscripta.biocantor.parent import parent as pm
    return [pm.Parent.cache_info().currsize, pm._unique_value_or_none.cache_info().currsize]


def main():
    mod = importlib.import_module(sys.argv[1])
    sys.stdout.write(json.dumps({"ready": True, "caches": cache_sizes()}) + "\n")
    sys.stdout.flush()
    for line in sys.stdin:
        line = line.strip()
        if not line:
            continue
        r, w = os.pipe()
        pid = os.fork()
        if pid == 0:
            os.close(r)
            try:
                res = json.dumps(mod.zygote_entry(json.loads(line)), default=repr)
            except Exception as e:
                res = json.dumps({"error": repr(e)[:300]})
            with os.fdopen(w, "w") as fh:
                fh.write(res)
            os._exit(0)
        os.close(w)
        with os.fdopen(r) as fh:
            res = fh.read()
        os.waitpid(pid, 0)
        sys.stdout.write((res or json.dumps({"error": "child died"})) + "\n")
        sys.stdout.flush()


class Client:
    """one zygote per (process, module); restarted if it died"""

    def __init__(self, module, env=None):
        self.module = module
        self.env = env or {}  # e.g. {"PYTHONHASHSEED": "3"}: the same questions under another interpreter configuration
        self.proc = None

    def _start(self):
        import subprocess
        from harness.core import VERIF_DIR, REPO_DIR
        env = dict(os.environ, PYTHONPATH=os.pathsep.join([VERIF_DIR, REPO_DIR, os.path.join(VERIF_DIR, ".deps")]))
        env.update(self.env)
        self.proc = subprocess.Popen([sys.executable, "-W", "ignore", "-m", "harness.zygote", self.module], stdin=subprocess.PIPE, stdout=subprocess.PIPE,
                                     env=env, cwd=VERIF_DIR, text=True, bufsize=1)
        hello = json.loads(self.proc.stdout.readline() or "{}")
        if not hello.get("ready") or any(hello.get("caches", [1])):
            raise RuntimeError("zygote for %s is not pristine: %r" % (self.module, hello))

    def ask(self, request):
        if self.proc is None or self.proc.poll() is not None:
            self._start()
        self.proc.stdin.write(json.dumps(request) + "\n")
        self.proc.stdin.flush()
        line = self.proc.stdout.readline()
        if not line:
            raise RuntimeError("zygote for %s died" % self.module)
        out = json.loads(line)
        if isinstance(out, dict) and "error" in out:
            raise RuntimeError("zygote %s: %s" % (self.module, out["error"]))
        return out


if __name__ == "__main__":
    main()
