"""CLI:  vcheck <PROPERTY_ID> [--tier quick|thorough] [--replay FILE] [--legs a,b] [--n N] [--procs P]"""
import argparse
import os
import sys
import traceback


def main(argv=None):
    ap = argparse.ArgumentParser()
    ap.add_argument("pid")
    ap.add_argument("--tier", default=os.environ.get("VERIF_TIER") or "quick", choices=["quick", "thorough"])
    ap.add_argument("--replay")
    ap.add_argument("--legs")
    ap.add_argument("--n", type=int)
    ap.add_argument("--procs", type=int)
    a = ap.parse_args(argv)
    try:
        seed = int(os.environ.get("VERIF_SEED") or "1")
    except ValueError:
        seed = 1
    try:
        from harness import core

        if a.replay:
            return core.replay(a.pid.upper(), a.replay)
        legs = a.legs.split(",") if a.legs else None
        return core.run_property(a.pid.upper(), a.tier, seed, legs, a.n, a.procs)
    except SystemExit:
        raise
    except BaseException:
        traceback.print_exc()
        print("HARNESS-ERROR: check could not run", file=sys.stderr)
        return 2


if __name__ == "__main__":
    sys.exit(main())
