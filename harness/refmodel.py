"""Reference models (oracles).  Nothing here calls the BioCantor function it is used to judge.

PosModel: a location is the list of parent positions in 5'->3' order.
"""
import itertools

SIGN = {"+": 1, "-": -1, ".": 0}
SYM = {1: "+", -1: "-", 0: "."}

# typed in from the IUPAC definition
IUPAC_COMPLEMENT = {
    "A": "T", "C": "G", "G": "C", "T": "A", "U": "A",
    "R": "Y", "Y": "R", "S": "S", "W": "W", "K": "M", "M": "K",
    "B": "V", "V": "B", "D": "H", "H": "D", "N": "N", "-": "-",
}


def compose(a: str, b: str) -> str:
    """strand composition = sign product, unstranded absorbing"""
    return SYM[SIGN[a] * SIGN[b]]


def flip(a: str) -> str:
    return SYM[-SIGN[a]]


def comp_char(c: str) -> str:
    r = IUPAC_COMPLEMENT[c.upper()]
    return r.lower() if c.islower() else r


def revcomp(s: str) -> str:
    return "".join(comp_char(c) for c in reversed(s))


def sorted_blocks(blocks):
    """non-empty blocks in ascending (start, end) order"""
    return sorted([tuple(b) for b in blocks if b[1] > b[0]])


def canonical_sort(blocks, strand):
    """the documented canonical block order (CompoundInterval._sort_starts_ends: 'incrementing order relative to the
    orientation'): ascending start; ties on start broken by end ascending on plus/unstranded and by end descending on
    minus, so that the 5'->3' scan of a minus location is the exact mirror image"""
    if strand == "-":
        return sorted(blocks, key=lambda b: (b[0], -b[1]))
    return sorted(blocks, key=lambda b: (b[0], b[1]))


def positions(blocks, strand: str):
    """list of parent positions in 5'->3' order: blocks in canonical order (reversed on minus), each block ascending
    (descending on minus).  For non-overlapping blocks this is simply ascending / descending coordinate order."""
    bl = canonical_sort([tuple(b) for b in blocks if b[1] > b[0]], strand)
    if strand == "-":
        out = []
        for s, e in reversed(bl):
            out.extend(range(e - 1, s - 1, -1))
        return out
    out = []
    for s, e in bl:
        out.extend(range(s, e))
    return out


def posset(blocks):
    s = set()
    for a, b in blocks:
        s.update(range(a, b))
    return s


def blocks_of_set(ps):
    """maximal runs of a set of ints -> sorted list of (start, end)"""
    out = []
    for p in sorted(ps):
        if out and out[-1][1] == p:
            out[-1][1] = p + 1
        else:
            out.append([p, p + 1])
    return [tuple(b) for b in out]


def has_self_overlap(blocks):
    bl = sorted_blocks(blocks)
    reach = None
    for s_, e_ in bl:
        if reach is not None and s_ < reach:
            return True
        reach = e_ if reach is None else max(reach, e_)
    return False


def seq_image(genome: str, pos_list, strand: str) -> str:
    if strand == "-":
        return "".join(comp_char(genome[p]) for p in pos_list)
    return "".join(genome[p] for p in pos_list)


# ----------------------------------------------------------------------------------------------
# observing library Location objects (reads attributes only)


def loc_blocks(loc):
    """[(start,end)] of a library location, in its stored order"""
    return [(b.start, b.end) for b in loc.blocks]


def loc_strand(loc):
    return loc.strand.to_symbol()


def loc_positions(loc):
    """5'->3' positions of a library location read from its block list *in stored order* and its strand
    (that the stored order is ascending is checked separately by ``wellformed``)"""
    if type(loc).__name__ == "_EmptyLocation":
        return []
    bl = [b for b in loc_blocks(loc) if b[1] > b[0]]
    out = []
    if loc_strand(loc) == "-":
        for s, e in reversed(bl):
            out.extend(range(e - 1, s - 1, -1))
    else:
        for s, e in bl:
            out.extend(range(s, e))
    return out



def wellformed(loc, ctx, clause, optimized=False, parent_len=None, expect_strand=None):
    """structural validator shared by all properties that receive a Location"""
    tn = type(loc).__name__
    if tn == "_EmptyLocation":
        from inscripta.biocantor.location.location_impl import EmptyLocation

        ctx.true(clause + ":empty_singleton", loc is EmptyLocation())
        ctx.true(clause + ":empty_len0", len(loc) == 0 and loc.is_empty and loc.blocks == [])
        return
    bl = loc_blocks(loc)
    ok = True
    ok &= ctx.true(clause + ":type", tn in ("SingleInterval", "CompoundInterval"), tn)
    ok &= ctx.true(clause + ":nonempty_blocks", len(bl) >= 1, bl)
    if not ok:
        return
    ctx.true(clause + ":block_bounds", all(0 <= s <= e for s, e in bl), bl)
    ctx.true(clause + ":blocks_sorted", [s for s, _ in bl] == sorted(s for s, _ in bl), bl)
    ctx.eq(clause + ":length", len(loc), sum(e - s for s, e in bl))
    ctx.eq(clause + ":start", loc.start, min(s for s, _ in bl))
    ctx.eq(clause + ":end", loc.end, max(e for _, e in bl))
    ctx.eq(clause + ":num_blocks", loc.num_blocks, len(bl))
    if tn == "SingleInterval":
        ctx.eq(clause + ":single_one_block", len(bl), 1)
    if optimized:
        ctx.true(clause + ":no_empty_block", all(e > s for s, e in bl), bl)
        ctx.true(clause + ":no_adjacent_blocks", all(bl[i][1] != bl[i + 1][0] for i in range(len(bl) - 1)), bl)
        ctx.true(clause + ":single_if_one_block", not (tn == "CompoundInterval" and len(bl) == 1), bl)
    if parent_len is not None:
        ctx.true(clause + ":inside_parent", max(e for _, e in bl) <= parent_len, (bl, parent_len))
    if expect_strand is not None:
        ctx.eq(clause + ":strand", loc_strand(loc), expect_strand)
    # the overlap flag of a returned location describes ITS blocks (a flag carried over from, or pre-set by, the operation that
    # built it would disagree); blocks are sorted by start, so some pair overlaps iff some neighbouring pair does
    ctx.eq(clause + ":is_overlapping_describes_blocks", bool(loc.is_overlapping), any(bl[i][1] > bl[i + 1][0] for i in range(len(bl) - 1)), extra=bl)


# ----------------------------------------------------------------------------------------------
# reading-frame model (C05): walk exons 5'->3'


def frame_walk(blocks, strand, frames):
    """FrameModel (C05).  blocks: CDS blocks ascending (non-empty), frames: ints aligned with ascending blocks.
    Returns (codons, degenerate) where codons is a list of 3-tuples of parent positions in 5'->3' order.

    Walk the exons 5'->3'.  The running frame is the number of bases of the pending (incomplete) codon, 0 at the
    start.  If an exon's annotated frame equals the running frame the pending codon continues into it.  Otherwise
    (annotated start offset on the first exon, programmed frameshift later) the pending incomplete codon is dropped
    and ``frame`` bases of this exon are skipped, after which the walk is in frame.  A codon is emitted every three
    bases; a trailing incomplete codon is dropped.

    degenerate=True when a skip is applied to an exon that is not longer than the skip (the property does not say
    whether the remainder of the skip carries over)."""
    order = list(range(len(blocks)))
    if strand == "-":
        order.reverse()
    codons = []
    pending = []
    degenerate = False
    for idx in order:
        s, e = blocks[idx]
        f = frames[idx]
        pos = list(range(s, e)) if strand != "-" else list(range(e - 1, s - 1, -1))
        if f != len(pending):
            pending = []
            if f >= len(pos):
                degenerate = True
            pos = pos[f:]
        for p in pos:
            pending.append(p)
            if len(pending) == 3:
                codons.append(tuple(pending))
                pending = []
    return codons, degenerate


def cleaned_blocks(blocks, strand, frames):
    """the part of each CDS block that takes part in the reading frame (FrameModel): the skipped bases at a frame offset /
    re-synchronisation are cut off the 5' side of that block, the dropped incomplete codon off the 3' side of the blocks
    before it.  Returns the non-empty remainders as ascending-coordinate blocks, in ascending block order."""
    order = list(range(len(blocks)))
    if strand == "-":
        order.reverse()
    kept = {}
    walked = []   # block indices in walk order
    pending = 0
    for idx in order:
        s, e = blocks[idx]
        n = e - s
        f = frames[idx]
        skip = 0
        if f != pending:
            drop = pending
            for j in reversed(walked):
                if drop == 0:
                    break
                take = min(drop, kept[j][1] - kept[j][0])
                if strand != "-":
                    kept[j][1] -= take
                else:
                    kept[j][0] += take
                drop -= take
            pending = 0
            skip = min(f, n)
        kept[idx] = [s + skip, e] if strand != "-" else [s, e - skip]
        walked.append(idx)
        pending = (pending + n - skip) % 3
    return [kept[i] for i in sorted(kept) if kept[i][1] > kept[i][0]]


def order_representable(blocks):
    """a Location keeps its blocks sorted by start: a list of blocks read in the given order is representable iff the starts
    and the ends are strictly increasing"""
    return all(blocks[i][0] < blocks[i + 1][0] and blocks[i][1] < blocks[i + 1][1] or blocks[i][1] <= blocks[i + 1][0] for i in range(len(blocks) - 1))


def codons_representable(codons, strand):
    """can every codon (a 5'->3' list of positions) be stored as a Location? Its maximal runs become blocks, and the blocks are
    kept in the canonical order (ties on start!), so the positions read back must equal the codon"""
    step = -1 if strand == "-" else 1
    for cod in codons:
        runs = [[cod[0], cod[0]]]
        for p_ in cod[1:]:
            if p_ == runs[-1][1] + step:
                runs[-1][1] = p_
            else:
                runs.append([p_, p_])
        bl = [(min(a, b), max(a, b) + 1) for a, b in runs]
        if positions(bl, strand) != list(cod):
            return False
    return True


def frames_from_offset(blocks, strand, offset):
    """frames (aligned with ascending blocks) of ONE uninterrupted reading frame that starts after ``offset`` skipped
    bases of the 5'-most exon: frame of a later exon = number of bases of the codon pending at its start"""
    order = list(range(len(blocks)))
    if strand == "-":
        order.reverse()
    frames = [None] * len(blocks)
    consumed = -offset
    for n, idx in enumerate(order):
        s, e = blocks[idx]
        frames[idx] = offset if n == 0 else consumed % 3
        consumed += e - s
    return frames
