"""Table questions answered inside a pristine child process (C15 call histories).  No library call at import time."""
import harness.compat  # noqa: F401
from inscripta.biocantor.gene.cds_frame import CDSFrame, CDSPhase
from inscripta.biocantor.gene.codon import Codon, TranslationTable, START_CODONS_BY_TRANSLATION_TABLE
from inscripta.biocantor.location.strand import Strand
from inscripta.biocantor.sequence.alphabet import Alphabet
from inscripta.biocantor.sequence.sequence import Sequence


def call(c):
    op = c[0]
    if op == "syn":
        return sorted(str(x) for x in Codon(c[1]).synonymous_codons(include_self=c[2]))
    if op == "translate":
        return Codon(c[1]).translate(strict=c[2])
    if op == "stop":
        return Codon(c[1]).is_stop_codon
    if op == "strict":
        return Codon(c[1]).is_strict_codon
    if op == "canon":
        return Codon(c[1]).is_canonical_start_codon
    if op == "start":
        return Codon(c[1]).is_start_codon_in_specific_translation_table(TranslationTable[c[2]])
    if op == "str":
        x = Codon(c[1])
        return [str(x), x.value, x.name]
    if op == "shift":
        return CDSFrame[c[1]].shift(c[2]).name
    if op == "to_phase":
        return CDSFrame[c[1]].to_phase().name
    if op == "to_frame":
        return CDSPhase[c[1]].to_frame().name
    if op == "phase_gff":
        return CDSPhase[c[1]].to_gff()
    if op == "rel":
        return Strand[c[1]].relative_to(Strand[c[2]]).name
    if op == "rev":
        return Strand[c[1]].reverse().name
    if op == "symbol":
        return Strand.from_symbol(c[1]).name
    if op == "revcomp":
        return str(Sequence(c[1], Alphabet[c[2]]).reverse_complement())
    if op == "sweep_syn_held":  # the partition asked of the objects constructed before the history
        out = {}
        for k, obj in HELD.items():
            out[k] = [sorted(str(x) for x in obj.synonymous_codons(include_self=True)), sorted(str(x) for x in obj.synonymous_codons(include_self=False)),
                      obj.translate(), obj.is_stop_codon, obj.is_strict_codon, str(obj), obj.is_start_codon_in_specific_translation_table(TranslationTable.STANDARD),
                      obj in START_CODONS_BY_TRANSLATION_TABLE[TranslationTable.PROKARYOTE], hash(obj) == hash(Codon(k)), obj is Codon(k)]
        return out
    if op == "sweep_syn":  # the whole partition, asked after the history
        out = {}
        for a in "ACGT":
            for b in "ACGT":
                for d in "ACGT":
                    k = a + b + d
                    out[k] = [sorted(str(x) for x in Codon(k).synonymous_codons(include_self=True)),
                              sorted(str(x) for x in Codon(k).synonymous_codons(include_self=False)),
                              Codon(k).translate(), Codon(k).is_stop_codon]
        return out
    raise ValueError("unknown op %r" % (op,))


HELD = {}


def zygote_entry(calls):
    out = []
    HELD.clear()
    if any(c[0] == "sweep_syn_held" for c in calls):
        # the 64 strict codons are constructed FIRST and the objects are kept (as the library's own start-codon sets keep
        # theirs); after the history the same objects are asked again
        for a in "ACGT":
            for b in "ACGT":
                for d in "ACGT":
                    HELD[a + b + d] = Codon(a + b + d)
    for c in calls:
        try:
            out.append({"v": call(c)})
        except Exception as e:  # the caller decides what a raised call means
            out.append({"exc": type(e).__name__, "msg": str(e)[:120]})
    return out


