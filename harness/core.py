"""Core of the verification harness: legs, evaluation context, Hypothesis driving, sharding,
known-finding matching, evidence and replay files.  See DESIGN.md section 2."""
import hashlib
import json
import os
import re
import sys
import time
import traceback
from collections import Counter
from dataclasses import dataclass, field
from typing import Any, Callable, Dict, List, Optional

VERIF_DIR = os.path.dirname(os.path.dirname(os.path.abspath(__file__)))
REPO_DIR = os.environ.get("VERIF_REPO", "/repo")


class Violation(Exception):
    """Raised inside a Hypothesis test body when a case has failures not listed as known."""


class Refused(Exception):
    """Raised by a check when the library refuses the request with a documented exception and the
    property allows refusal.  Counted, never a violation."""


def canon(spec) -> str:
    return json.dumps(spec, sort_keys=True, separators=(",", ":"), default=str)


def digest(spec) -> int:
    return int.from_bytes(hashlib.blake2b(canon(spec).encode(), digest_size=8).digest(), "big")


class Ctx:
    """Per-case evaluation context handed to ``check(spec, ctx)``."""

    __slots__ = ("failures", "labels", "nontrivial", "refused", "notes")

    def __init__(self):
        self.failures = []  # list of (clause, detail)
        self.labels = set()
        self.nontrivial = False
        self.refused = 0
        self.notes = []

    def fail(self, clause: str, detail: Any = None):
        self.failures.append((clause, _short(detail)))

    def eq(self, clause: str, got, exp, extra=None):
        if got != exp:
            d = {"got": got, "expected": exp}
            if extra is not None:
                d["ctx"] = extra
            self.fail(clause, d)
            return False
        return True

    def true(self, clause: str, cond, detail=None):
        if not cond:
            self.fail(clause, detail)
            return False
        return True

    def label(self, *names):
        for n in names:
            if n:
                self.labels.add(n)

    def nt(self, *names):
        """mark the case non-trivial (optionally with labels)"""
        self.nontrivial = True
        self.label(*names)

    def refuse(self, name="refused"):
        self.refused += 1
        self.labels.add(name)


def _short(x, n=3000):
    try:
        s = x if isinstance(x, str) else json.dumps(x, default=repr)
    except Exception:
        s = repr(x)
    return s if len(s) <= n else s[:n] + "…"


def biocantor_frame(tb) -> str:
    """innermost frame inside the BioCantor package (root-cause bucket key)"""
    frames = traceback.extract_tb(tb)
    for fr in reversed(frames):
        if "/inscripta/biocantor/" in fr.filename:
            return "%s:%s" % (fr.filename.split("/inscripta/biocantor/")[1], fr.name)
    if frames:
        fr = frames[-1]
        return "%s:%s" % (os.path.basename(fr.filename), fr.name)
    return "?"


@dataclass
class Leg:
    name: str
    check: Callable  # check(spec, ctx)
    strategy: Optional[Callable] = None  # strategy(tier) -> hypothesis SearchStrategy of JSON-able specs
    enumerate: Optional[Callable] = None  # enumerate(tier, shard, nshards) -> iterator of specs (exhaustive legs)
    examples: List[Any] = field(default_factory=list)  # seed-independent explicit specs (must-hit classes)
    n_quick: int = 500
    n_thorough: int = 5000  # per shard
    shards_quick: int = 2
    shards_thorough: int = 16
    must_hit: List[str] = field(default_factory=list)
    rule: str = ""
    exhaustive: bool = False
    machine: Optional[Callable] = None  # machine(tier, holder) -> RuleBasedStateMachine subclass (stateful legs)
    fuzz_of: Optional[str] = None  # coverage-guided leg (atheris): name of the leg whose strategy and check are driven
    # exceptions a check body may leak that are harness bugs rather than findings are NOT special-cased:
    # every exception escaping check() is a failure with clause "exception:<Type>@<frame>".


@dataclass
class Prop:
    pid: str
    legs: List[Leg]
    rule: str
    assumptions: List[str]
    predicates: Dict[str, Callable] = field(default_factory=dict)  # known-finding predicates: f(spec, clause, detail)->bool
    level: str = "exploration"
    stateful: Optional[Callable] = None


# ---------------------------------------------------------------------------------------------
# known findings


def load_known():
    p = os.path.join(VERIF_DIR, "known_findings.json")
    with open(p) as fh:
        return json.load(fh)


class Known:
    def __init__(self, prop: Prop):
        data = load_known()
        self.open = [f for f in data.get("findings", []) if f["property"] == prop.pid]
        self.fixed_replays = [f for f in data.get("fixed_replays", []) if f["property"] == prop.pid]
        self.prop = prop

    def match(self, leg: str, spec, clause: str, detail) -> Optional[str]:
        for f in self.open:
            if f.get("leg") not in (None, "*", leg):
                continue
            if not re.fullmatch(f["clause"], clause):
                continue
            pred = f.get("predicate")
            if pred:
                fn = self.prop.predicates[pred]
                try:
                    if not fn(spec, clause, detail):
                        continue
                except Exception:
                    continue
            return f["id"]
        return None


# ---------------------------------------------------------------------------------------------
# evaluation of one case


class Stats:
    def __init__(self):
        self.evaluations = 0
        self.nontrivial = set()
        self.labels = Counter()
        self.refused = 0
        self.known_hits = Counter()
        self.samples = []
        self.failures = []  # new violations: dict(leg, spec, clauses)
        self.wall = 0.0
        self.errors = []
        self.gen_labels = Counter()  # labels seen in the generated phase only

    def to_dict(self):
        return dict(
            evaluations=self.evaluations,
            nontrivial=list(self.nontrivial),
            labels=dict(self.labels),
            gen_labels=dict(self.gen_labels),
            refused=self.refused,
            known_hits=dict(self.known_hits),
            samples=self.samples,
            failures=self.failures,
            wall=self.wall,
            errors=self.errors,
        )


def evaluate(prop: Prop, leg: Leg, spec, stats: Stats, known: Known, suppressed=(), generated=True):
    """Run check on spec; returns list of (clause, detail) failures that are neither known nor suppressed."""
    ctx = Ctx()
    spec_c = json.loads(canon(spec))  # checks get a private copy; also guarantees JSON-ability
    try:
        leg.check(spec_c, ctx)
    except Refused:
        ctx.refuse()
    except (Violation, KeyboardInterrupt, MemoryError):
        raise
    except Exception as e:  # an exception escaping the check is a finding candidate
        # hypothesis control-flow exceptions must propagate
        if type(e).__module__.startswith("hypothesis"):
            raise
        tb = " <- ".join("%s:%d:%s" % (os.path.basename(fr.filename), fr.lineno, fr.name) for fr in reversed(traceback.extract_tb(e.__traceback__)[-6:]))
        ctx.fail("exception:%s@%s" % (type(e).__name__, biocantor_frame(e.__traceback__)), repr(e)[:200] + " TB: " + tb)
    stats.evaluations += 1
    stats.refused += ctx.refused
    for lab in ctx.labels:
        stats.labels[lab] += 1
        if generated:
            stats.gen_labels[lab] += 1
    if ctx.nontrivial:
        stats.nontrivial.add(digest(spec))
        if len(stats.samples) < 6 and (stats.evaluations % 7 == 1 or len(stats.samples) < 2):
            stats.samples.append({"leg": leg.name, "spec": spec_c_trim(spec), "labels": sorted(ctx.labels)})
    new = []
    for clause, detail in ctx.failures:
        kid = known.match(leg.name, spec, clause, detail)
        if kid:
            stats.known_hits[kid] += 1
            continue
        if clause in suppressed:
            continue
        new.append((clause, detail))
    return new


def spec_c_trim(spec):
    s = canon(spec)
    if len(s) > 1500:
        return {"truncated": s[:1500]}
    return json.loads(s)


# ---------------------------------------------------------------------------------------------
# running one (leg, shard)


def run_leg_shard(prop: Prop, leg: Leg, tier: str, seed: int, shard: int, nshards: int, n_override=None):
    stats = Stats()
    known = Known(prop)
    t0 = time.time()
    try:
        # explicit examples (seed independent) on shard 0
        if shard == 0:
            for ex in leg.examples:
                new = evaluate(prop, leg, ex, stats, known, generated=False)
                if new:
                    stats.failures.append({"leg": leg.name, "spec": ex, "clauses": new, "origin": "explicit"})
            for fr in known.fixed_replays:
                if fr.get("leg") == leg.name:
                    new = evaluate(prop, leg, fr["spec"], stats, known, generated=False)
                    if new:
                        stats.failures.append({"leg": leg.name, "spec": fr["spec"], "clauses": new, "origin": "fixed-regression"})
        if leg.enumerate is not None:
            suppressed = set()
            for spec in leg.enumerate(tier, shard, nshards):
                new = evaluate(prop, leg, spec, stats, known, suppressed)
                if new:
                    stats.failures.append({"leg": leg.name, "spec": spec, "clauses": new, "origin": "enumerated"})
                    suppressed.update(c for c, _ in new)
        if leg.fuzz_of is not None:
            n = n_override or (leg.n_quick if tier == "quick" else leg.n_thorough)
            return _run_fuzz(prop, leg, tier, seed * 1000 + shard, n, t0)
        if leg.strategy is not None:
            n = n_override or (leg.n_quick if tier == "quick" else leg.n_thorough)
            _run_hypothesis(prop, leg, tier, seed * 1000 + shard, n, stats, known)
        if leg.machine is not None:
            n = n_override or (leg.n_quick if tier == "quick" else leg.n_thorough)
            _run_machine(prop, leg, tier, seed * 1000 + shard, n, stats, known)
    except Exception as e:
        stats.errors.append("harness error in leg %s shard %d: %s\n%s" % (leg.name, shard, repr(e), traceback.format_exc()[-1500:]))
    stats.wall = time.time() - t0
    return stats.to_dict()


def _run_fuzz(prop, leg, tier, seed, runs, t0):
    """coverage-guided leg: a separate interpreter (atheris instruments `inscripta` at import time) runs harness.fuzzdrv"""
    import subprocess
    import tempfile
    try:
        import atheris  # noqa: F401
    except ImportError:
        st_ = Stats()
        st_.labels["atheris_unavailable"] += 1
        st_.wall = time.time() - t0
        return st_.to_dict()
    fd, out = tempfile.mkstemp(prefix="bcfuzz.", suffix=".json")
    os.close(fd)
    env = dict(os.environ, PYTHONPATH=os.pathsep.join([VERIF_DIR, REPO_DIR, os.path.join(VERIF_DIR, ".deps")]))
    r = subprocess.run([sys.executable, "-W", "ignore", "-m", "harness.fuzzdrv", prop.pid, leg.name, tier, str(seed), str(runs), out],
                       cwd=VERIF_DIR, env=env, capture_output=True, text=True)
    try:
        d = json.load(open(out))
    except Exception:
        d = Stats().to_dict()
        d["errors"] = ["fuzz driver produced no statistics (exit %s): %s" % (r.returncode, (r.stderr or r.stdout)[-800:])]
    finally:
        try:
            os.remove(out)
        except OSError:
            pass
        import shutil
        shutil.rmtree(out + ".corpus", ignore_errors=True)
    if r.returncode not in (0,) and not d.get("errors") and not d.get("failures"):
        # libFuzzer reports an uncaught exception of the target as a crash; evaluate() catches everything, so this is a harness error
        d.setdefault("errors", []).append("fuzz driver exit %s: %s" % (r.returncode, (r.stderr or "")[-800:]))
    d["labels"] = dict(d.get("labels", {}), coverage_guided=d.get("evaluations", 0))
    d["wall"] = time.time() - t0
    return d


def _run_hypothesis(prop, leg, tier, seed, n, stats, known):
    import hypothesis
    from hypothesis import HealthCheck, Phase, given, settings

    suppressed = set()
    for rnd in range(4):  # collect-then-continue: up to 4 distinct root-cause buckets per shard
        holder = {}

        def body(spec):
            new = evaluate(prop, leg, spec, stats, known, suppressed)
            if new:
                holder["last"] = (json.loads(canon(spec)), new)
                raise Violation(new[0][0])

        test = hypothesis.seed(seed + 7919 * rnd)(
            settings(
                max_examples=n if rnd == 0 else max(50, n // 2),
                database=None,
                deadline=None,
                derandomize=False,
                report_multiple_bugs=False,
                print_blob=False,
                suppress_health_check=list(HealthCheck),
                phases=[Phase.generate, Phase.shrink],
            )(given(leg.strategy(tier))(body))
        )
        try:
            test()
            return
        except Violation:
            spec, new = holder["last"]
            stats.failures.append({"leg": leg.name, "spec": spec, "clauses": new, "origin": "generated+shrunk"})
            suppressed.update(c for c, _ in new)
        except Exception as e:
            # Hypothesis' shrinker occasionally fails internally (e.g. on text strategies whose alphabet depends on
            # an earlier draw); a failing case found before that is still a real failing case
            if isinstance(e, hypothesis.errors.Flaky):
                spec, new = holder.get("last", (None, [("flaky", repr(e)[:300])]))
                stats.failures.append({"leg": leg.name, "spec": spec, "clauses": [("flaky:" + new[0][0], new[0][1])], "origin": "flaky"})
                return
            if "last" not in holder:
                raise
            spec, new = holder["last"]
            stats.failures.append({"leg": leg.name, "spec": spec, "clauses": new, "origin": "generated (shrinking aborted: %s)" % repr(e)[:80]})
            suppressed.update(c for c, _ in new)
        except hypothesis.errors.Flaky as e:
            spec, new = holder.get("last", (None, [("flaky", repr(e)[:300])]))
            stats.failures.append({"leg": leg.name, "spec": spec, "clauses": [("flaky:" + new[0][0], new[0][1])], "origin": "flaky"})
            return


def _run_machine(prop, leg, tier, seed, n, stats, known):
    """drive a Hypothesis rule-based state machine; the machine records its history as a JSON spec that the
    leg's ordinary check(spec) replays"""
    import hypothesis
    from hypothesis import HealthCheck, Phase, settings
    from hypothesis.stateful import run_state_machine_as_test

    suppressed = set()
    for rnd in range(3):
        holder = {}

        def flt(spec, failures, _s=suppressed):
            new = []
            for clause, detail in failures:
                kid = known.match(leg.name, spec, clause, detail)
                if kid:
                    stats.known_hits[kid] += 1
                elif clause not in _s:
                    new.append((clause, detail))
            return new

        holder["filter"] = flt
        M = hypothesis.seed(seed + 7919 * rnd)(leg.machine(tier, holder))
        cfg = settings(max_examples=n if rnd == 0 else max(10, n // 2), stateful_step_count=25 if tier == "quick" else 50, database=None, deadline=None,
                       derandomize=False, report_multiple_bugs=False, print_blob=False, suppress_health_check=list(HealthCheck),
                       phases=[Phase.generate, Phase.shrink])
        failed = None
        try:
            run_state_machine_as_test(M, settings=cfg)
        except Violation:
            failed = holder["last"]
        except Exception as e:
            if "last" in holder:
                failed = holder["last"]
            else:
                raise
        for spec, labels in holder.get("histories", []):
            stats.evaluations += 1
            for lab in labels:
                stats.labels[lab] += 1
                stats.gen_labels[lab] += 1
            if len(spec.get("history", [])) >= 3:
                stats.nontrivial.add(digest(spec))
                if len(stats.samples) < 4:
                    stats.samples.append({"leg": leg.name, "spec": spec_c_trim(spec), "labels": sorted(labels)})
        stats.labels["machine_steps"] += holder.get("steps", 0)
        if failed is None:
            return
        spec, new = failed
        stats.failures.append({"leg": leg.name, "spec": spec, "clauses": new, "origin": "state machine (shrunk history)"})
        suppressed.update(c for c, _ in new)


# ---------------------------------------------------------------------------------------------
# property-level driver


def _worker(args):
    pid, legname, tier, seed, shard, nshards, n_override = args
    from harness import registry

    prop = registry.load(pid)
    leg = [l for l in prop.legs if l.name == legname][0]
    return legname, shard, run_leg_shard(prop, leg, tier, seed, shard, nshards, n_override)


def run_property(pid: str, tier: str, seed: int, only_legs=None, n_override=None, procs=None) -> int:
    from harness import registry

    t0 = time.time()
    prop = registry.load(pid)
    known = Known(prop)
    import glob

    replay_root = os.environ.get("VERIF_REPLAY_ROOT", VERIF_DIR)  # sensitivity sweeps keep their replays out of /verif
    for old in glob.glob(os.path.join(replay_root, "replays", "%s-*.json" % pid)):
        os.remove(old)
    legs = [l for l in prop.legs if not only_legs or l.name in only_legs]
    tasks = []
    for leg in legs:
        ns = leg.shards_quick if tier == "quick" else leg.shards_thorough
        for sh in range(ns):
            tasks.append((pid, leg.name, tier, seed, sh, ns, n_override))
    procs = procs or int(os.environ.get("VERIF_PROCS", "16"))
    results = []
    if procs <= 1 or len(tasks) == 1:
        for t in tasks:
            results.append(_worker(t))
    else:
        import multiprocessing as mp

        ctxm = mp.get_context("fork")
        with ctxm.Pool(min(procs, len(tasks))) as pool:
            for r in pool.imap_unordered(_worker, tasks, chunksize=1):
                results.append(r)
            # let the workers exit on their own (the context manager would terminate them; a graceful exit lets tools that
            # hook process exit - e.g. a line-coverage measurement of the quick tier - see the workers too)
            pool.close()
            pool.join()

    # known-finding replay step
    known_lines = []
    kstats = Stats()
    violations = []
    for f in known.open:
        reproduced = False
        for rp in f.get("replay", []):
            leg = [l for l in prop.legs if l.name == rp["leg"]][0]
            before = kstats.known_hits[f["id"]]
            new = evaluate(prop, leg, rp["spec"], kstats, known, generated=False)
            if kstats.known_hits[f["id"]] > before:
                reproduced = True
            if new:
                violations.append({"leg": leg.name, "spec": rp["spec"], "clauses": new, "origin": "known-replay"})
        if reproduced:
            known_lines.append("KNOWN-FINDING: property=%s %s: %s" % (pid, f["id"], f["what"]))

    # aggregate
    agg = {"evaluations": kstats.evaluations, "nontrivial": set(kstats.nontrivial), "labels": Counter(), "gen_labels": Counter(),
           "refused": 0, "known_hits": Counter(kstats.known_hits), "samples": [], "errors": [], "legs": {}}
    for legname, shard, st in sorted(results, key=lambda r: (r[0], r[1])):
        agg["evaluations"] += st["evaluations"]
        agg["nontrivial"].update(st["nontrivial"])
        agg["labels"].update(st["labels"])
        agg["gen_labels"].update(st["gen_labels"])
        agg["refused"] += st["refused"]
        agg["known_hits"].update(st["known_hits"])
        if len(agg["samples"]) < 12:
            agg["samples"].extend(st["samples"][: 2 if shard else 3])
        agg["errors"].extend(st["errors"])
        violations.extend(st["failures"])
        L = agg["legs"].setdefault(legname, {"evaluations": 0, "distinct_nontrivial": set(), "shards": 0, "wall_s": 0.0, "violations": 0})
        L["evaluations"] += st["evaluations"]
        L["distinct_nontrivial"].update(st["nontrivial"])
        L["shards"] += 1
        L["wall_s"] = round(max(L["wall_s"], st["wall"]), 2)
        L["violations"] += len(st["failures"])
    for L in agg["legs"].values():
        L["distinct_nontrivial"] = len(L["distinct_nontrivial"])

    # dedupe violations by (leg, first clause)
    seen = {}
    for v in violations:
        key = (v["leg"], v["clauses"][0][0])
        if key not in seen or len(canon(v["spec"])) < len(canon(seen[key]["spec"])):
            seen[key] = v
    viol_paths = []
    os.makedirs(os.path.join(replay_root, "replays"), exist_ok=True)
    for (legname, clause), v in sorted(seen.items()):
        h = hashlib.blake2b((legname + clause + canon(v["spec"])).encode(), digest_size=5).hexdigest()
        rel = "replays/%s-%s-%s.json" % (pid, legname, h)
        with open(os.path.join(replay_root, rel), "w") as fh:
            json.dump({"property": pid, "leg": legname, "spec": v["spec"], "clauses": v["clauses"], "origin": v["origin"],
                       "seed": seed, "tier": tier}, fh, indent=1, default=repr)
        viol_paths.append(rel)

    gaps = []
    for leg in legs:
        for m in leg.must_hit:
            if agg["labels"].get(m, 0) == 0:
                gaps.append("%s:%s(never)" % (leg.name, m))
            elif agg["gen_labels"].get(m, 0) == 0:
                gaps.append("%s:%s(explicit-only)" % (leg.name, m))

    wall = time.time() - t0
    exhaustive = all(l.exhaustive for l in legs) if legs else False
    ev = {
        "property_id": pid,
        "tier": tier,
        "seed": seed,
        "level": prop.level,
        "coverage": {
            "evaluations": agg["evaluations"],
            "distinct_nontrivial": len(agg["nontrivial"]),
            "rule": prop.rule,
            "samples": agg["samples"][:12],
            "exhaustive": exhaustive,
            "exhaustive_legs": [l.name for l in legs if l.exhaustive],
            "labels": dict(sorted(agg["labels"].items())),
            "refused": agg["refused"],
            "known_finding_hits": dict(agg["known_hits"]),
            "generator_gaps": gaps,
            "legs": agg["legs"],
            "leg_rules": {l.name: l.rule for l in legs if l.rule},
            "engine": "hypothesis %s (seeded, database=None) + explicit examples + exhaustive enumeration where marked" % _hyp_version(),
        },
        "assumptions": prop.assumptions,
        "wall_s": round(wall, 2),
        "violations": len(viol_paths),
    }
    if only_legs is None and not os.environ.get("VERIF_NO_EVIDENCE"):
        os.makedirs(os.path.join(VERIF_DIR, "evidence"), exist_ok=True)
        with open(os.path.join(VERIF_DIR, "evidence", "%s.json" % pid), "w") as fh:
            json.dump(ev, fh, indent=1, default=repr)

    for line in known_lines:
        print(line)
    print("%s tier=%s seed=%d evaluations=%d distinct_nontrivial=%d refused=%d known_hits=%s wall=%.1fs" % (
        pid, tier, seed, agg["evaluations"], len(agg["nontrivial"]), agg["refused"], dict(agg["known_hits"]), wall))
    for name, L in agg["legs"].items():
        print("  leg %-28s eval=%-8d nontrivial=%-8d wall=%.1fs" % (name, L["evaluations"], L["distinct_nontrivial"], L["wall_s"]))
    if gaps:
        print("  generator_gaps:", gaps)
    if agg["errors"]:
        for e in agg["errors"]:
            print("HARNESS-ERROR", e, file=sys.stderr)
        return 2
    if viol_paths:
        for (legname, clause), v in sorted(seen.items()):
            print("  violation leg=%s clause=%s detail=%s" % (legname, clause, str(v["clauses"][0][1])[:500]))
        for p in viol_paths:
            print("VIOLATION property=%s replay=%s" % (pid, p))
        return 1
    return 0


def _hyp_version():
    try:
        import hypothesis

        return hypothesis.__version__
    except Exception:
        return "?"


def replay(pid: str, path: str) -> int:
    from harness import registry

    prop = registry.load(pid)
    known = Known(prop)
    with open(path) as fh:
        data = json.load(fh)
    leg = [l for l in prop.legs if l.name == data["leg"]][0]
    st = Stats()
    new = evaluate(prop, leg, data["spec"], st, known, generated=False)
    if new:
        for c, d in new:
            print("  clause=%s detail=%s" % (c, d))
        print("VIOLATION property=%s replay=%s" % (pid, path))
        return 1
    if st.known_hits:
        print("KNOWN-FINDING: property=%s %s" % (pid, dict(st.known_hits)))
    print("replay passes")
    return 0
