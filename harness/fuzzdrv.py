"""Coverage-guided driver (atheris / libFuzzer) for an ordinary leg.

usage: python -m harness.fuzzdrv <PID> <leg name> <tier> <seed> <runs> <out.json>

The leg's Hypothesis strategy is driven through `test.hypothesis.fuzz_one_input`: libFuzzer mutates the byte string that
Hypothesis decodes into the leg's structured spec, and keeps the byte strings that reach new branches of the (instrumented)
`inscripta` package.  The oracle is the leg's own check(spec) - the same clauses, known-finding predicates and evidence counters
as in the random legs; failures are collected (not raised), so one shallow failure does not end the campaign.  The budget is a
number of runs, not a time limit; the corpus directory is fresh (8 pseudo-random byte strings derived from the seed).  `atheris.Fuzz()` never returns, so the statistics
are written to <out.json> every 50 evaluations and on every new failure (the final <=49 evaluations may be missing from the
counts: they are understated, never overstated)."""
import json
import os
import sys
import tempfile


def main():
    pid, legname, tier, seed, runs, out = sys.argv[1], sys.argv[2], sys.argv[3], int(sys.argv[4]), int(sys.argv[5]), sys.argv[6]
    import atheris
    with atheris.instrument_imports(include=["inscripta"]):
        import harness.compat  # noqa: F401
        from harness import registry
        prop = registry.load(pid)
    from harness.core import Stats, Known, evaluate, canon
    from hypothesis import HealthCheck, given, settings
    leg = [l for l in prop.legs if l.name == legname][0]
    base = [l for l in prop.legs if l.name == getattr(leg, "fuzz_of", None)]
    src = base[0] if base else leg
    stats, known, suppressed = Stats(), Known(prop), set()
    state = {"n": 0}

    def dump():
        d = stats.to_dict()
        d["engine"] = "atheris %s / libFuzzer, -runs=%d -seed=%d, corpus = 8 seed-derived random byte strings, inscripta instrumented" % (getattr(atheris, "__version__", ""), runs, seed)
        tmp = out + ".tmp"
        with open(tmp, "w") as fh:
            json.dump(d, fh, default=repr)
        os.replace(tmp, out)

    @settings(database=None, deadline=None, suppress_health_check=list(HealthCheck), max_examples=10 ** 9)
    @given(src.strategy(tier))
    def test(spec):
        new = evaluate(prop, src, spec, stats, known, suppressed)
        state["n"] += 1
        if new:
            stats.failures.append({"leg": src.name, "spec": json.loads(canon(spec)), "clauses": new, "origin": "coverage-guided (unshrunk)"})
            suppressed.update(c for c, _ in new)
            dump()
        elif state["n"] % 50 == 0:
            dump()

    # (libFuzzer ends the process itself, so the directory is removed by the parent: harness/core.py deletes <out>.corpus)
    corpus = out + ".corpus"
    os.makedirs(corpus, exist_ok=True)
    # Hypothesis rejects byte strings that are too short for the draws of a spec, and a rejected input shows no new coverage,
    # so an empty corpus never gets off the ground: start from a few long pseudo-random byte strings (a pure function of the seed)
    import hashlib
    for i in range(8):
        blob = b"".join(hashlib.blake2b(b"%d:%d:%d" % (seed, i, j), digest_size=64).digest() for j in range(48))
        with open(os.path.join(corpus, "seed%d" % i), "wb") as fh:
            fh.write(blob)
    dump()
    atheris.Setup([sys.argv[0], "-runs=%d" % runs, "-seed=%d" % (seed or 1), "-max_len=8192", "-len_control=0", "-verbosity=0", "-print_final_stats=0", corpus],
                  test.hypothesis.fuzz_one_input)
    atheris.Fuzz()


if __name__ == "__main__":
    main()
