"""Independent readers for the text formats BioCantor writes (no BioCantor imports)."""
from urllib.parse import unquote


class FormatError(Exception):
    pass


def read_gff3(text):
    """9-column GFF3 reader with RFC-3986 percent-decoding.  Returns dict(header, directives, rows, fasta)"""
    lines = text.split("\n")
    if lines and lines[-1] == "":
        lines.pop()
    out = {"header": lines[0] if lines else None, "directives": [], "rows": [], "fasta": {}}
    i = 0
    in_fasta = False
    cur = None
    for ln, line in enumerate(lines):
        if in_fasta:
            if line.startswith(">"):
                cur = line[1:].split()[0] if line[1:].split() else ""
                out["fasta"][cur] = ""
            else:
                if cur is None:
                    raise FormatError("sequence before FASTA header at line %d" % ln)
                out["fasta"][cur] += line
            continue
        if line.startswith("##FASTA"):
            in_fasta = True
            continue
        if line.startswith("#"):
            out["directives"].append(line)
            continue
        cols = line.split("\t")
        if len(cols) != 9:
            raise FormatError("line %d has %d columns: %r" % (ln, len(cols), line[:120]))
        try:
            start, end = int(cols[3]), int(cols[4])
        except ValueError:
            raise FormatError("line %d: non-integer coordinates" % ln)
        attrs = []
        if cols[8]:
            for pair in cols[8].split(";"):
                if "=" not in pair:
                    raise FormatError("line %d: attribute without '=': %r" % (ln, pair[:60]))
                k, v = pair.split("=", 1)
                attrs.append((unquote(k), [unquote(x) for x in v.split(",")], k, v))
        out["rows"].append({"line": ln, "seqid": cols[0], "source": cols[1], "type": cols[2], "start": start, "end": end, "score": cols[5],
                            "strand": cols[6], "phase": cols[7], "attrs": attrs, "raw": line})
    return out


def attrs_dict(row):
    d = {}
    for k, vals, _, _ in row["attrs"]:
        if k in d:
            raise FormatError("duplicate attribute key %r on line %d" % (k, row["line"]))
        d[k] = vals
    return d


def read_bed12(line):
    cols = line.split("\t")
    if len(cols) != 12:
        raise FormatError("expected 12 columns, got %d" % len(cols))
    return dict(chrom=cols[0], start=int(cols[1]), end=int(cols[2]), name=cols[3], score=int(cols[4]), strand=cols[5],
                thick_start=int(cols[6]), thick_end=int(cols[7]), rgb=cols[8], count=int(cols[9]),
                sizes=[int(x) for x in cols[10].rstrip(",").split(",")], starts=[int(x) for x in cols[11].rstrip(",").split(",")])


def read_tbl(text):
    """NCBI 5-column feature table reader.
    returns list of records: dict(header=name, features=[dict(key, intervals=[(a,b,partial5,partial3)], qualifiers=[(k,v)])])"""
    records = []
    cur = None
    feat = None
    for ln, line in enumerate(text.split("\n")):
        if not line.strip():
            continue
        if line.startswith(">Feature"):
            parts = line.split(None, 1)
            cur = {"header": parts[1].strip() if len(parts) > 1 else "", "features": []}
            records.append(cur)
            feat = None
            continue
        if cur is None:
            raise FormatError("line %d before any >Feature header" % ln)
        cols = line.split("\t")
        if cols[0] != "":
            # interval line (possibly starting a feature)
            if len(cols) < 2:
                raise FormatError("line %d: interval line with <2 columns" % ln)
            a, b = cols[0], cols[1]
            p5 = a.startswith("<") or a.startswith(">")
            p3 = b.startswith(">") or b.startswith("<")
            ai, bi = int(a.lstrip("<>")), int(b.lstrip("<>"))
            if len(cols) >= 3 and cols[2] != "":
                feat = {"key": cols[2], "intervals": [], "qualifiers": [], "line": ln}
                cur["features"].append(feat)
            if feat is None:
                raise FormatError("line %d: interval without feature" % ln)
            feat["intervals"].append((ai, bi, a[0] if p5 else "", b[0] if p3 else ""))
        else:
            # qualifier line: three leading empty columns
            if len(cols) < 4 or cols[1] != "" or cols[2] != "":
                raise FormatError("line %d: malformed qualifier line %r" % (ln, line[:80]))
            if feat is None:
                raise FormatError("line %d: qualifier without feature" % ln)
            feat["qualifiers"].append((cols[3], cols[4] if len(cols) > 4 else ""))
    return records
