"""spec -> BioCantor objects"""
import harness.compat  # noqa: F401
from inscripta.biocantor.location.location_impl import SingleInterval, CompoundInterval, EmptyLocation  # noqa: F401
from inscripta.biocantor.location.strand import Strand
from inscripta.biocantor.parent import Parent
from inscripta.biocantor.sequence import Sequence
from inscripta.biocantor.sequence.alphabet import Alphabet

STRAND = {"+": Strand.PLUS, "-": Strand.MINUS, ".": Strand.UNSTRANDED}


def shifted_blocks(spec):
    sh = spec.get("shift", 0)
    return [[s + sh, e + sh] for s, e in spec["blocks"]]


def mkloc(spec, parent=None):
    """location spec -> SingleInterval/CompoundInterval (constructor receives blocks in spec['order'])"""
    bl = shifted_blocks(spec)
    order = spec.get("order") or list(range(len(bl)))
    strand = STRAND[spec["strand"]]
    if len(bl) == 1 and not spec.get("compound"):
        return SingleInterval(bl[0][0], bl[0][1], strand, parent)
    return CompoundInterval([bl[i][0] for i in order], [bl[i][1] for i in order], strand, parent)


def mkloc_blocks(blocks, strand, parent=None, force_compound=False):
    if len(blocks) == 1 and not force_compound:
        return SingleInterval(blocks[0][0], blocks[0][1], STRAND[strand], parent)
    return CompoundInterval([b[0] for b in blocks], [b[1] for b in blocks], STRAND[strand], parent)


def seq_parent(genome, alphabet="NT_STRICT", pid="chr", seq_type="chromosome"):
    return Parent(id=pid, sequence=Sequence(genome, Alphabet[alphabet], id=pid, type=seq_type))


# ------------------------------------------------------------------------------------------------
# gene-level builders
from inscripta.biocantor.gene.cds import CDSInterval  # noqa: E402
from inscripta.biocantor.gene.cds_frame import CDSFrame  # noqa: E402
from inscripta.biocantor.io.parser import seq_to_parent, seq_chunk_to_parent  # noqa: E402


def chrom_parent(genome, name="chr1", alphabet="NT_EXTENDED_GAPPED"):
    return seq_to_parent(genome, alphabet=Alphabet[alphabet], seq_id=name)


def chunk_parent(genome, cs, ce, name="chr1", alphabet="NT_EXTENDED_GAPPED"):
    return seq_chunk_to_parent(genome[cs:ce], name, cs, ce, alphabet=Alphabet[alphabet])


def mkcds(spec, parent=None, **kw):
    bl = spec["blocks"]
    return CDSInterval(
        [b[0] for b in bl], [b[1] for b in bl], STRAND[spec["strand"]], [CDSFrame(f) for f in spec["frames"]],
        parent_or_seq_chunk_parent=parent, **kw)
