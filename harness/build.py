"""spec -> BioCantor objects"""
import harness.compat  # noqa: F401
from inscripta.biocantor.location.location_impl import SingleInterval, CompoundInterval, EmptyLocation  # noqa: F401
from inscripta.biocantor.location.strand import Strand
from inscripta.biocantor.parent import Parent
from inscripta.biocantor.sequence import Sequence
from inscripta.biocantor.sequence.alphabet import Alphabet

STRAND = {"+": Strand.PLUS, "-": Strand.MINUS, ".": Strand.UNSTRANDED}


def shifted_blocks(spec):
    sh = spec.get("shift", 0)
    return [[s + sh, e + sh] for s, e in spec["blocks"]]


def mkloc(spec, parent=None):
    """location spec -> SingleInterval/CompoundInterval (constructor receives blocks in spec['order'])"""
    bl = shifted_blocks(spec)
    order = spec.get("order") or list(range(len(bl)))
    strand = STRAND[spec["strand"]]
    if len(bl) == 1 and not spec.get("compound"):
        return SingleInterval(bl[0][0], bl[0][1], strand, parent)
    return CompoundInterval([bl[i][0] for i in order], [bl[i][1] for i in order], strand, parent)


def mkloc_blocks(blocks, strand, parent=None, force_compound=False):
    if len(blocks) == 1 and not force_compound:
        return SingleInterval(blocks[0][0], blocks[0][1], STRAND[strand], parent)
    return CompoundInterval([b[0] for b in blocks], [b[1] for b in blocks], STRAND[strand], parent)


def seq_parent(genome, alphabet="NT_STRICT", pid="chr", seq_type="chromosome"):
    return Parent(id=pid, sequence=Sequence(genome, Alphabet[alphabet], id=pid, type=seq_type))
