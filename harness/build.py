"""spec -> BioCantor objects"""
import harness.compat  # noqa: F401
from inscripta.biocantor.location.location_impl import SingleInterval, CompoundInterval, EmptyLocation  # noqa: F401
from inscripta.biocantor.location.strand import Strand
from inscripta.biocantor.parent import Parent
from inscripta.biocantor.sequence import Sequence
from inscripta.biocantor.sequence.alphabet import Alphabet

STRAND = {"+": Strand.PLUS, "-": Strand.MINUS, ".": Strand.UNSTRANDED}


def shifted_blocks(spec):
    sh = spec.get("shift", 0)
    return [[s + sh, e + sh] for s, e in spec["blocks"]]


def mkloc(spec, parent=None):
    """location spec -> SingleInterval/CompoundInterval (constructor receives blocks in spec['order'])"""
    bl = shifted_blocks(spec)
    order = spec.get("order") or list(range(len(bl)))
    strand = STRAND[spec["strand"]]
    if len(bl) == 1 and not spec.get("compound"):
        return SingleInterval(bl[0][0], bl[0][1], strand, parent)
    return CompoundInterval([bl[i][0] for i in order], [bl[i][1] for i in order], strand, parent)


def mkloc_blocks(blocks, strand, parent=None, force_compound=False):
    if len(blocks) == 1 and not force_compound:
        return SingleInterval(blocks[0][0], blocks[0][1], STRAND[strand], parent)
    return CompoundInterval([b[0] for b in blocks], [b[1] for b in blocks], STRAND[strand], parent)


def seq_parent(genome, alphabet="NT_STRICT", pid="chr", seq_type="chromosome"):
    return Parent(id=pid, sequence=Sequence(genome, Alphabet[alphabet], id=pid, type=seq_type))


# ------------------------------------------------------------------------------------------------
# gene-level builders
from inscripta.biocantor.gene.cds import CDSInterval  # noqa: E402
from inscripta.biocantor.gene.cds_frame import CDSFrame  # noqa: E402
from inscripta.biocantor.io.parser import seq_to_parent, seq_chunk_to_parent  # noqa: E402


def chrom_parent(genome, name="chr1", alphabet="NT_EXTENDED_GAPPED"):
    return seq_to_parent(genome, alphabet=Alphabet[alphabet], seq_id=name)


def chunk_parent(genome, cs, ce, name="chr1", alphabet="NT_EXTENDED_GAPPED", strand="+", idiom="api"):
    """sequence-chunk parent for the window [cs, ce); strand "-" = the chunk is the reverse complement of its window.
    idiom "docstring": built by hand as the docstring of liftover_location_to_seq_chunk_parent shows it - the chunk sequence and
    its Parent carry NO id (only the chromosome is named), so two chunks of one chromosome differ in their window alone"""
    if idiom == "docstring":
        from harness.refmodel import revcomp
        from inscripta.biocantor.parent.parent import SequenceType
        sub = genome[cs:ce] if strand != "-" else revcomp(genome[cs:ce])
        return Parent(sequence=Sequence(sub, Alphabet[alphabet], type=SequenceType.SEQUENCE_CHUNK,
                                        parent=Parent(location=SingleInterval(cs, ce, STRAND[strand], parent=Parent(id=name, sequence_type=SequenceType.CHROMOSOME)))))
    if strand == "-":
        from harness.refmodel import revcomp
        return seq_chunk_to_parent(revcomp(genome[cs:ce]), name, cs, ce, strand=STRAND["-"], alphabet=Alphabet[alphabet])
    return seq_chunk_to_parent(genome[cs:ce], name, cs, ce, alphabet=Alphabet[alphabet])


def _guid_kw(spec):
    """an identifier issued by the caller (a database key) instead of the content digest: spec key "guid" (UUID text)"""
    import uuid
    return {"guid": uuid.UUID(spec["guid"])} if spec.get("guid") else {}


def mkcds(spec, parent=None, **kw):
    bl = spec["blocks"]
    return CDSInterval(
        [b[0] for b in bl], [b[1] for b in bl], STRAND[spec["strand"]], [CDSFrame(f) for f in spec["frames"]],
        parent_or_seq_chunk_parent=parent, **kw)
from inscripta.biocantor.gene.transcript import TranscriptInterval  # noqa: E402
from inscripta.biocantor.gene.feature import FeatureInterval  # noqa: E402
from inscripta.biocantor.gene.biotype import Biotype  # noqa: E402


def mktx(spec, parent=None, sequence_name="chr1", **kw):
    ex = spec["exons"]
    cds = spec.get("cds")
    if spec.get("exon_order"):
        # the constructor receives the exons in this order (a Location sorts its blocks; a transcript must not care either)
        ex = [ex[i] for i in spec["exon_order"] if i < len(ex)] + [e for i, e in enumerate(ex) if i not in spec["exon_order"]]
    args = dict(
        exon_starts=[b[0] for b in ex], exon_ends=[b[1] for b in ex], strand=STRAND[spec["strand"]],
        cds_starts=[b[0] for b in cds] if cds else None, cds_ends=[b[1] for b in cds] if cds else None,
        cds_frames=[CDSFrame(f) for f in spec["frames"]] if cds else None,
        qualifiers=spec.get("qualifiers") or None, is_primary_tx=spec.get("is_primary_tx"),
        transcript_id=spec.get("transcript_id"), transcript_symbol=spec.get("transcript_symbol"),
        transcript_type=Biotype[spec["transcript_type"]] if spec.get("transcript_type") else None,
        sequence_name=spec.get("sequence_name", sequence_name), protein_id=spec.get("protein_id"), product=spec.get("product"),
        parent_or_seq_chunk_parent=parent)
    args.update(_guid_kw(spec))
    args.update(kw)
    return TranscriptInterval(**args)


def mkfeat(spec, parent=None, sequence_name="chr1", **kw):
    bl = spec["blocks"]
    args = dict(
        interval_starts=[b[0] for b in bl], interval_ends=[b[1] for b in bl], strand=STRAND[spec["strand"]],
        qualifiers=spec.get("qualifiers") or None, sequence_name=spec.get("sequence_name", sequence_name),
        feature_types=spec.get("feature_types"), feature_name=spec.get("feature_name"), feature_id=spec.get("feature_id"),
        is_primary_feature=spec.get("is_primary_feature"), parent_or_seq_chunk_parent=parent)
    args.update(_guid_kw(spec))
    args.update(kw)
    return FeatureInterval(**args)
from inscripta.biocantor.gene.gene import GeneInterval  # noqa: E402
from inscripta.biocantor.gene.feature import FeatureIntervalCollection  # noqa: E402
from inscripta.biocantor.gene.variants import VariantInterval, VariantIntervalCollection  # noqa: E402
from inscripta.biocantor.gene.collections import AnnotationCollection  # noqa: E402


def mkgene(spec, parent=None, sequence_name="chr1", **kw):
    txs = [mktx(t, parent, sequence_name=sequence_name) for t in spec["transcripts"]]
    args = dict(transcripts=txs, gene_id=spec.get("gene_id"), gene_symbol=spec.get("gene_symbol"),
                gene_type=Biotype[spec["gene_type"]] if spec.get("gene_type") else None, locus_tag=spec.get("locus_tag"),
                qualifiers=spec.get("qualifiers") or None, sequence_name=sequence_name, parent_or_seq_chunk_parent=parent)
    args.update(_guid_kw(spec))
    args.update(kw)
    return GeneInterval(**args)


def mkfc(spec, parent=None, sequence_name="chr1", **kw):
    feats = [mkfeat(f, parent, sequence_name=sequence_name) for f in spec["features"]]
    args = dict(feature_intervals=feats, feature_collection_name=spec.get("feature_collection_name"),
                feature_collection_id=spec.get("feature_collection_id"), feature_collection_type=spec.get("feature_collection_type"),
                locus_tag=spec.get("locus_tag"), qualifiers=spec.get("qualifiers") or None, sequence_name=sequence_name,
                parent_or_seq_chunk_parent=parent)
    args.update(_guid_kw(spec))
    args.update(kw)
    return FeatureIntervalCollection(**args)


def mkvar(v, parent=None):
    return VariantInterval(v["start"], v["end"], v["sequence"], v["variant_type"], phase_block=v.get("phase_block"),
                           variant_name=v.get("variant_name"), variant_id=v.get("variant_id"), qualifiers=v.get("qualifiers") or None,
                           parent_or_seq_chunk_parent=parent, **_guid_kw(v))


def mkvc(spec, parent=None, sequence_name="chr1", preused=None, other_parent=None):
    """preused: the child VariantInterval objects are not fresh - they were built on another reference and asked for their
    alternative sequence ("other_reference"), or built without any parent and used for a coordinate lift ("sequence_less"),
    before this collection adopts them (the constructor re-parents its children)"""
    if preused == "other_reference" and other_parent is not None:
        kids = [mkvar(v, other_parent) for v in spec["variants"]]
        for k in kids:
            try:
                k.alternative_genomic_sequence
            except Exception:
                pass
    elif preused == "sequence_less":
        kids = [mkvar(v, None) for v in spec["variants"]]
        for k in kids:
            try:
                k.lift_over_location(SingleInterval(k.start, k.end + 1, STRAND["+"]))
                k.has_sequence
            except Exception:
                pass
    else:
        kids = [mkvar(v, parent) for v in spec["variants"]]
    return VariantIntervalCollection(kids, variant_collection_name=spec.get("variant_collection_name"),
                                     variant_collection_id=spec.get("variant_collection_id"), sequence_name=sequence_name,
                                     qualifiers=spec.get("qualifiers") or None, parent_or_seq_chunk_parent=parent, **_guid_kw(spec))


def mkcollection(spec, parent=None, sequence_name="chr1"):
    genes = [mkgene(g, parent, sequence_name) for g in spec.get("genes", [])]
    fcs = [mkfc(f, parent, sequence_name) for f in spec.get("feature_collections", [])]
    vcs = [mkvc(v, parent, sequence_name) for v in spec.get("variant_collections", [])]
    return AnnotationCollection(feature_collections=fcs or None, genes=genes or None, variant_collections=vcs or None,
                                name=spec.get("name"), id=spec.get("id"), sequence_name=sequence_name,
                                qualifiers=spec.get("qualifiers") or None, start=spec.get("start"), end=spec.get("end"),
                                parent_or_seq_chunk_parent=parent)


def as_container(items, kind):
    """the writers document `collections` as an Iterable: a list, a tuple, a generator or a one-shot iterator must all do"""
    if kind == "tuple":
        return tuple(items)
    if kind == "generator":
        return (x for x in items)
    if kind == "iterator":
        return iter(list(items))
    return list(items)
