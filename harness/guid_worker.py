"""Persistent worker used by C08: started with a given PYTHONHASHSEED, answers one JSON line per request with the
identifiers and a digest of the dictionary form of the object built from the spec."""
import hashlib
import json
import sys

import harness.compat  # noqa: F401
from harness.build import mkcollection, mkgene, mkfc, mktx, mkfeat, mkcds, mkvc, chrom_parent, chunk_parent


def describe(kind, spec, genome=None, chunk=None):
    parent = None
    if genome is not None:
        parent = chunk_parent(genome, chunk[0], chunk[1]) if chunk else chrom_parent(genome)
    obj = {"collection": mkcollection, "gene": mkgene, "fc": mkfc, "tx": mktx, "feat": mkfeat, "cds": mkcds, "vc": mkvc}[kind](spec, parent)
    guids = {"self": str(obj.guid)}
    if kind == "collection":
        for c in obj.iter_children():
            guids["child:" + str(c.start) + ":" + type(c).__name__ + ":" + str(sorted(map(str, c.identifiers)))] = str(c.guid)
            for gc in c.iter_children():
                guids["grandchild:" + str(gc.start) + ":" + str(gc.end) + ":" + str(sorted(map(str, gc.identifiers)))] = str(gc.guid)
    elif kind in ("gene", "fc", "vc"):
        for gc in obj.iter_children():
            guids["child:" + str(gc.start) + ":" + str(gc.end) + ":" + str(sorted(map(str, gc.identifiers)))] = str(gc.guid)
    elif kind == "tx" and obj.cds is not None:
        guids["cds"] = str(obj.cds.guid)
    d = json.dumps(obj.to_dict(), sort_keys=True, default=str)
    return {"guids": guids, "dict_md5": hashlib.md5(d.encode()).hexdigest()}


def main():
    for line in sys.stdin:
        line = line.strip()
        if not line:
            continue
        try:
            req = json.loads(line)
            out = describe(req["kind"], req["spec"], req.get("genome"), req.get("chunk"))
        except Exception as e:  # reported to the caller, which decides
            out = {"error": repr(e)[:300]}
        sys.stdout.write(json.dumps(out) + "\n")
        sys.stdout.flush()


if __name__ == "__main__":
    main()
