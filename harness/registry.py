import importlib

_cache = {}


def load(pid: str):
    if pid not in _cache:
        import harness.compat  # noqa: F401  (must precede any BioCantor import)

        mod = importlib.import_module("checks.%s" % pid.lower())
        _cache[pid] = mod.PROP
    return _cache[pid]
