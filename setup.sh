#!/bin/bash
# offline setup: make sure hypothesis is importable by /venv/bin/python (already present in this image;
# otherwise install from the offline wheelhouse into /verif/.deps)
HERE="$(cd "$(dirname "$0")" && pwd)"
mkdir -p "$HERE/.deps" "$HERE/evidence" "$HERE/replays"
if ! PYTHONPATH="$HERE/.deps" /venv/bin/python -c "import hypothesis" 2>/dev/null; then
  /venv/bin/pip install --no-index --find-links /opt/veriftools/wheels --target "$HERE/.deps" hypothesis || exit 1
fi
# atheris (coverage-guided legs of the thorough tier) is optional: the legs report `atheris_unavailable` without it
if ! PYTHONPATH="$HERE/.deps" /venv/bin/python -c "import atheris" 2>/dev/null; then
  /venv/bin/pip install --no-index --find-links /opt/veriftools/wheels --target "$HERE/.deps" atheris >/dev/null 2>&1 || echo "atheris not installed (optional)"
fi
PYTHONPATH="$HERE:${VERIF_REPO:-/repo}:$HERE/.deps" /venv/bin/python -c "import harness.compat, hypothesis, inscripta.biocantor.io.models; print('setup ok', hypothesis.__version__)"
