#!/usr/bin/env python3
"""Evaluate an externally written breaking change.

usage: seeded.py <out_dir with patch.diff, demo.py, meta.json> <seed_id> [--checks C05,C07] [--tier quick]

Steps (all in a scratch copy of /repo's working tree under /tmp, removed afterwards):
 1. the demonstration passes on the unchanged tree;
 2. the patch applies; the pinned test suite still gives 1466 passed; the demonstration fails;
 3. our checks (VERIF_REPO=<scratch copy>) are run against the patched copy; detection is recorded.
Results go to /verif/seeded/<seed_id>/ (patch.diff, demo.py, meta.json with what we ran and saw).
"""
import json, os, shutil, subprocess, sys, tempfile

def sh(cmd, cwd=None, env=None, timeout=3600):
    r = subprocess.run(cmd, cwd=cwd, env=env, capture_output=True, text=True, timeout=timeout)
    return r.returncode, r.stdout, r.stderr

def main():
    args = sys.argv[1:]
    tier = "quick"
    checks = None
    if "--checks" in args:
        i = args.index("--checks"); checks = args[i + 1].split(","); del args[i:i + 2]
    if "--tier" in args:
        i = args.index("--tier"); tier = args[i + 1]; del args[i:i + 2]
    out, sid = os.path.abspath(args[0]), args[1]
    meta = json.load(open(os.path.join(out, "meta.json")))
    pid = meta["property"]
    checks = checks or [pid]
    # the demonstrations of the IO-layer seeds import the environment shim from /tmp/compat_shim (see DESIGN 1)
    os.makedirs("/tmp/compat_shim", exist_ok=True)
    shutil.copy(os.path.join(os.path.dirname(os.path.dirname(os.path.abspath(__file__))), "harness", "compat.py"), "/tmp/compat_shim/bcompat.py")
    tmp = tempfile.mkdtemp(prefix="bcseed.", dir="/tmp")
    res = {"seed_id": sid, "property": pid, "agent_meta": meta}
    try:
        for d in ("inscripta", "tests"):
            shutil.copytree(os.path.join("/repo", d), os.path.join(tmp, d))
        for f in ("setup.cfg", "pyproject.toml", "tox.ini", "setup.py"):
            if os.path.exists("/repo/" + f):
                shutil.copy("/repo/" + f, tmp)
        env = dict(os.environ, PYTHONPATH=tmp)
        demo = os.path.join(out, "demo.py")
        rc0, o0, e0 = sh(["/venv/bin/python", demo], cwd=tmp, env=env)
        res["demo_on_unchanged_tree_exit"] = rc0
        rc, o, e = sh(["git", "apply", "--unsafe-paths", "--directory=" + tmp, os.path.join(out, "patch.diff")], cwd="/")
        if rc != 0:
            rc, o, e = sh(["patch", "-p1", "-i", os.path.join(out, "patch.diff")], cwd=tmp)
        res["patch_applies"] = rc == 0
        if rc != 0:
            res["patch_error"] = (o + e)[-500:]
        rc1, o1, e1 = sh(["/venv/bin/python", demo], cwd=tmp, env=env)
        res["demo_on_patched_tree_exit"] = rc1
        res["demo_failure_tail"] = (o1 + e1).strip().splitlines()[-3:]
        rct, ot, et = sh(["/venv/bin/python", "-m", "pytest", "-q", "-p", "no:cacheprovider", "--continue-on-collection-errors", "-n", "8", "tests"], cwd=tmp, env=env)
        res["pinned_tests_on_patched_tree"] = ot.strip().splitlines()[-1] if ot.strip() else et[-200:]
        det = {}
        for c in checks:
            r, o, e = sh(["/verif/vcheck", c, "--tier", tier], env=dict(os.environ, VERIF_REPO=tmp, VERIF_NO_EVIDENCE="1", VERIF_REPLAY_ROOT=tmp))
            viol = [l.strip()[:260] for l in o.splitlines() if l.strip().startswith("violation")]
            det[c] = {"exit": r, "detected": r == 1, "violations": viol[:4]}
            if r == 2:
                det[c]["stderr"] = e[-600:]
        res["our_checks"] = det
        res["valid_seed"] = bool(res["patch_applies"] and rc0 == 0 and rc1 != 0 and "1466 passed" in res["pinned_tests_on_patched_tree"])
        dst = os.path.join("/verif/seeded", sid)
        os.makedirs(dst, exist_ok=True)
        if os.path.realpath(out) != os.path.realpath(dst):
            shutil.copy(os.path.join(out, "patch.diff"), dst)
            shutil.copy(demo, dst)
        meta_out = {"property": pid, "summary": meta.get("summary"), "needs_to_manifest": meta.get("needs_to_manifest"), "files_changed": meta.get("files_changed"),
                    "confirmed": {"demo_exit_unchanged": rc0, "demo_exit_patched": rc1, "pinned_tests_patched": res["pinned_tests_on_patched_tree"], "valid": res["valid_seed"]},
                    "what_we_ran": "scratch copy of /repo's working tree + patch; pinned suite; demo.py on both trees; ./vcheck <ID> --tier %s with VERIF_REPO=<scratch copy>" % tier,
                    "detected_by": {c: d["detected"] for c, d in det.items()}, "violations": {c: d["violations"] for c, d in det.items()}}
        json.dump(meta_out, open(os.path.join(dst, "meta.json"), "w"), indent=1)
        print(json.dumps(res, indent=1)[:3000])
    finally:
        shutil.rmtree(tmp, ignore_errors=True)

main()
