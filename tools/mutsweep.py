#!/usr/bin/env python3
"""Automatic sensitivity sweep: AST mutants of the anchored source files.

For a sample of mutation sites in one source file: write the mutant into a scratch copy of the repository (under /tmp,
removed afterwards), run the pinned test suite on it; for mutants the suite does NOT kill, run the quick tier of the
properties anchored on that file (VERIF_REPO=<copy>) until one reports a VIOLATION.  Output: one JSON line per mutant in
<out>; `--report` summarises (per property: survivors of the suite, detected, missed).

usage: mutsweep.py run <rel file under inscripta/biocantor> [--n N] [--seed S] [--workers W] [--pids C01,C02] [--out file]
       mutsweep.py list <rel file>
       mutsweep.py report <out file>...
"""
import ast, copy, glob, json, os, random, re, shutil, subprocess, sys, tempfile, multiprocessing

REPO = "/repo"
CMP = {ast.Lt: ast.LtE, ast.LtE: ast.Lt, ast.Gt: ast.GtE, ast.GtE: ast.Gt, ast.Eq: ast.NotEq, ast.NotEq: ast.Eq,
       ast.In: ast.NotIn, ast.NotIn: ast.In, ast.Is: ast.IsNot, ast.IsNot: ast.Is}
BIN = {ast.Add: ast.Sub, ast.Sub: ast.Add, ast.FloorDiv: ast.Mult, ast.Mod: ast.FloorDiv}
NAMES = {"min": "max", "max": "min", "any": "all", "all": "any"}
ATTRS = {"start": "end", "end": "start", "PLUS": "MINUS", "MINUS": "PLUS", "append": "insert0", "relative_start": "relative_end",
         "relative_end": "relative_start", "chromosome_location": "chunk_relative_location",
         "chunk_relative_location": "chromosome_location", "_location": "chromosome_location"}
SKIP_FUNCS = {"__repr__", "__str__", "__hash__"}


class Mut(ast.NodeTransformer):
    """Visits nodes in a fixed order; numbers mutation sites; applies the `target`-th one."""

    def __init__(self, target=-1):
        self.n = 0
        self.target = target
        self.sites = []
        self.func = []
        self.in_raise = 0

    def site(self, node, kind):
        i = self.n
        self.n += 1
        self.sites.append((i, getattr(node, "lineno", 0), kind, ".".join(self.func)))
        return i == self.target

    def visit_FunctionDef(self, node):
        if node.name in SKIP_FUNCS:
            return node
        self.func.append(node.name)
        # do not descend into decorators, annotations, defaults or the docstring
        body = node.body
        start = 1 if body and isinstance(body[0], ast.Expr) and isinstance(getattr(body[0], "value", None), ast.Constant) and isinstance(body[0].value.value, str) else 0
        new_body = body[:start]
        for st in body[start:]:
            r = self.visit(st)
            if r is None:
                continue
            new_body.extend(r if isinstance(r, list) else [r])
        node.body = new_body or [ast.Pass()]
        self.func.pop()
        return node

    visit_AsyncFunctionDef = visit_FunctionDef

    def visit_ClassDef(self, node):
        self.func.append(node.name)
        node.body = [self.visit(b) for b in node.body]
        self.func.pop()
        return node

    def visit_Raise(self, node):
        return node  # error construction is not mutated

    def visit_Assert(self, node):
        return node

    def visit_JoinedStr(self, node):
        return node

    def visit_AnnAssign(self, node):
        if node.value is not None:
            node.value = self.visit(node.value)
        return node

    def visit_Expr(self, node):
        if not self.func:
            return node
        v = node.value
        if isinstance(v, ast.Constant):
            return node
        if isinstance(v, ast.Call):
            # statement deletion: a bare call (validation, cache fill, in-place update)
            name = ast.unparse(v.func)
            if not name.startswith(("warnings.", "logger.", "logging.", "super().__init__")):
                if self.site(node, "del-call:" + name[:40]):
                    return ast.Pass()
        return self.generic_visit(node)

    def visit_Compare(self, node):
        if self.func:
            for j, op in enumerate(node.ops):
                t = CMP.get(type(op))
                if t and self.site(node, "cmp:%s->%s" % (type(op).__name__, t.__name__)):
                    node.ops[j] = t()
        return self.generic_visit(node)

    def visit_BinOp(self, node):
        if self.func:
            t = BIN.get(type(node.op))
            if t and not (isinstance(node.op, ast.Mod) and isinstance(node.left, ast.Constant) and isinstance(node.left.value, str)) \
                    and not (isinstance(node.op, ast.Add) and (isinstance(node.left, (ast.Constant, ast.JoinedStr)) and isinstance(getattr(node.left, "value", None), str))):
                if self.site(node, "bin:%s->%s" % (type(node.op).__name__, t.__name__)):
                    node.op = t()
        return self.generic_visit(node)

    def visit_BoolOp(self, node):
        if self.func:
            if self.site(node, "bool:%s" % type(node.op).__name__):
                node.op = ast.Or() if isinstance(node.op, ast.And) else ast.And()
        return self.generic_visit(node)

    def visit_UnaryOp(self, node):
        if self.func and isinstance(node.op, ast.Not):
            if self.site(node, "not-removed"):
                return self.generic_visit(node.operand) if False else node.operand
        return self.generic_visit(node)

    def visit_If(self, node):
        if self.func and not isinstance(node.test, (ast.UnaryOp, ast.BoolOp, ast.Compare)):
            if self.site(node, "if-negated"):
                node.test = ast.UnaryOp(op=ast.Not(), operand=node.test)
        return self.generic_visit(node)

    def visit_Constant(self, node):
        if self.func and isinstance(node.value, int) and not isinstance(node.value, bool) and 0 <= node.value <= 3:
            if self.site(node, "const:%d->%d" % (node.value, node.value + 1)):
                return ast.copy_location(ast.Constant(node.value + 1), node)
        elif self.func and isinstance(node.value, bool):
            if self.site(node, "const:%s->%s" % (node.value, not node.value)):
                return ast.copy_location(ast.Constant(not node.value), node)
        return node

    def visit_Name(self, node):
        if self.func and node.id in NAMES and isinstance(node.ctx, ast.Load):
            if self.site(node, "name:%s->%s" % (node.id, NAMES[node.id])):
                node.id = NAMES[node.id]
        return node

    def visit_Call(self, node):
        if self.func and isinstance(node.func, ast.Name) and node.func.id in ("sorted", "reversed") and len(node.args) >= 1:
            if self.site(node, "call:%s-dropped" % node.func.id):
                return ast.Call(func=ast.Name("list", ast.Load()), args=[self.generic_visit(node.args[0])], keywords=[])
        return self.generic_visit(node)

    def visit_Attribute(self, node):
        if self.func and node.attr in ATTRS and isinstance(node.ctx, ast.Load) and ATTRS[node.attr] != "insert0":
            if self.site(node, "attr:%s->%s" % (node.attr, ATTRS[node.attr])):
                node.attr = ATTRS[node.attr]
        return self.generic_visit(node)

    def visit_Return(self, node):
        return self.generic_visit(node)


def sites_of(src):
    m = Mut()
    m.visit(ast.parse(src))
    return m.sites


def mutant(src, k):
    m = Mut(k)
    tree = m.visit(ast.parse(src))
    ast.fix_missing_locations(tree)
    return ast.unparse(tree) + "\n"


def anchored(rel):
    pids = []
    for l in open("/verif/properties.jsonl"):
        d = json.loads(l)
        if ("inscripta/biocantor/" + rel) in d["anchors"]["files"]:
            pids.append(d["id"])
    return pids


def prepare(workdir):
    if os.path.exists(workdir):
        shutil.rmtree(workdir)
    os.makedirs(workdir)
    shutil.copytree(REPO + "/inscripta", workdir + "/inscripta")
    shutil.copytree(REPO + "/tests", workdir + "/tests")
    for f in ("setup.cfg", "pyproject.toml", "tox.ini", "setup.py", "pytest.ini", "conftest.py"):
        if os.path.exists(REPO + "/" + f):
            shutil.copy(REPO + "/" + f, workdir)


def run_one(job):
    rel, k, site, pids, procs = job[:5]
    skip_tests = len(job) > 5 and job[5]
    ident = multiprocessing.current_process()._identity
    w = "/tmp/msweep_%d_w%d" % (os.getppid(), ident[0] if ident else 0)
    marker = w + "/.prepared"
    if not os.path.exists(marker):
        prepare(w)
        open(marker, "w").write("1")
    path = w + "/inscripta/biocantor/" + rel
    orig = open(REPO + "/inscripta/biocantor/" + rel).read()
    rec = {"file": rel, "k": k, "line": site[1], "kind": site[2], "func": site[3]}
    try:
        try:
            msrc = mutant(orig, k)
            compile(msrc, path, "exec")
        except Exception as e:  # noqa
            rec["status"] = "invalid:" + type(e).__name__
            return rec
        open(path, "w").write(msrc)
        r = None
        if not skip_tests:
            r = subprocess.run(["/venv/bin/python", "-m", "pytest", "-q", "-p", "no:cacheprovider", "--continue-on-collection-errors",
                                "-n", str(procs), "--timeout=300", "tests"], cwd=w, env=dict(os.environ, PYTHONPATH=w), capture_output=True, text=True)
        last = (r.stdout.strip().splitlines()[-1] if r.stdout.strip() else "") if r is not None else "1466 passed, 0 errors in 0s (not re-run)"
        rec["tests"] = last[:80]
        if not re.match(r"^1466 passed, \d+ errors? in", last):
            rec["status"] = "killed_by_suite"
            return rec
        rec["status"] = "missed"
        rec["checked"] = []
        for pid in pids:
            r = subprocess.run(["/verif/vcheck", pid], env=dict(os.environ, VERIF_REPO=w, VERIF_NO_EVIDENCE="1", VERIF_PROCS=str(procs), VERIF_REPLAY_ROOT=w),
                               capture_output=True, text=True)
            rec["checked"].append([pid, r.returncode])
            if r.returncode == 1:
                rec["status"] = "detected"
                rec["by"] = pid
                v = [l for l in r.stdout.splitlines() if l.strip().startswith("violation")]
                rec["clause"] = v[0][:200] if v else ""
                break
            if r.returncode != 0:
                rec["status"] = "harness_error"
                rec["err"] = r.stderr[-400:]
                break
        return rec
    finally:
        open(path, "w").write(orig)


def main():
    a = sys.argv[1:]
    cmd = a.pop(0)
    if cmd == "list":
        src = open(REPO + "/inscripta/biocantor/" + a[0]).read()
        for s in sites_of(src):
            print(s)
        return
    if cmd == "report":
        rows = [json.loads(l) for f in a for l in open(f)]
        by = {}
        for r in rows:
            by.setdefault(r["status"].split(":")[0], []).append(r)
        print({k: len(v) for k, v in by.items()})
        for r in by.get("missed", []):
            print("MISSED %s:%d %s in %s  checked=%s" % (r["file"], r["line"], r["kind"], r["func"], [p for p, _ in r["checked"]]))
        for r in by.get("harness_error", []):
            print("ERROR %s:%d %s %s" % (r["file"], r["line"], r["kind"], r.get("err", "")[-200:]))
        return
    if cmd == "recheck":
        # run further checks against the mutants a previous sweep reported as missed
        f = a.pop(0)
        opt = {"--pids": "", "--workers": "3"}
        while a:
            k = a.pop(0)
            opt[k] = a.pop(0)
        rows = [json.loads(l) for l in open(f)]
        workers = int(opt["--workers"])
        procs = max(2, 16 // workers)
        jobs = []
        for r in rows:
            if r["status"] == "missed":
                src = open(REPO + "/inscripta/biocantor/" + r["file"]).read()
                site = [s_ for s_ in sites_of(src) if s_[0] == r["k"]][0]
                done = {p_ for p_, _ in r.get("checked", [])}
                pids = [p_ for p_ in opt["--pids"].split(",") if p_ not in done]
                jobs.append((r["file"], r["k"], site, pids, procs, True))
        out = f.replace(".jsonl", "") + ".recheck.jsonl"
        with multiprocessing.Pool(workers) as pool, open(out, "a") as fh:
            for rec in pool.imap_unordered(run_one, jobs):
                fh.write(json.dumps(rec) + "\n")
                fh.flush()
                print(rec["status"], rec["file"], rec["line"], rec["kind"], rec.get("by", ""), flush=True)
        for d_ in glob.glob("/tmp/msweep_%d_w*" % os.getpid()):
            shutil.rmtree(d_, ignore_errors=True)
        return
    rel = a.pop(0)
    opt = {"--n": "30", "--seed": "1", "--workers": "4", "--pids": "", "--out": "", "--kinds": ""}
    while a:
        k = a.pop(0)
        opt[k] = a.pop(0)
    src = open(REPO + "/inscripta/biocantor/" + rel).read()
    sites = sites_of(src)
    if opt["--kinds"]:
        sites = [s for s in sites if re.search(opt["--kinds"], s[2])]
    rnd = random.Random(int(opt["--seed"]))
    rnd.shuffle(sites)
    sites = sites[: int(opt["--n"])]
    pids = opt["--pids"].split(",") if opt["--pids"] else anchored(rel)
    workers = int(opt["--workers"])
    procs = max(2, 16 // workers)
    out = opt["--out"] or "/tmp/msweep_%s.jsonl" % rel.replace("/", "_")
    jobs = [(rel, s[0], s, pids, procs) for s in sites]
    print("file=%s sites=%d sampled=%d pids=%s -> %s" % (rel, len(sites_of(src)), len(jobs), pids, out), flush=True)
    with multiprocessing.Pool(workers) as pool, open(out, "a") as fh:
        for rec in pool.imap_unordered(run_one, jobs):
            fh.write(json.dumps(rec) + "\n")
            fh.flush()
            print(rec["status"], rec["file"], rec["line"], rec["kind"], rec.get("by", ""), flush=True)
    for d_ in glob.glob("/tmp/msweep_%d_w*" % os.getpid()):
        shutil.rmtree(d_, ignore_errors=True)


if __name__ == "__main__":
    main()
