"""A pure-Python stand-in for the cgranges extension (same call surface BioCantor uses): half-open intervals, overlap()
yields (start, end, label) for every stored interval of the contig that overlaps the half-open query."""


class cgranges:
    def __init__(self):
        self._iv = {}
        self._indexed = False

    def add(self, ctg, start, end, label):
        self._iv.setdefault(ctg, []).append((int(start), int(end), label))

    def index(self):
        for v in self._iv.values():
            v.sort()
        self._indexed = True

    def overlap(self, ctg, start, end):
        if not self._indexed:
            raise RuntimeError("index() not called")
        for s, e, label in self._iv.get(ctg, []):
            if s < end and e > start:
                yield s, e, label
