#!/usr/bin/env python3
"""Regenerate seeded/README.md from seeded/*/meta.json (+ seeded/history.json: what had to be strengthened)."""
import glob, json, os
HERE = os.path.dirname(os.path.dirname(os.path.abspath(__file__)))
hist = json.load(open(os.path.join(HERE, "seeded", "history.json")))
rows = []
for f in sorted(glob.glob(os.path.join(HERE, "seeded", "*", "meta.json"))):
    sid = os.path.basename(os.path.dirname(f))
    d = json.load(open(f))
    det = d.get("detected_by", {})
    clause = ""
    for pid, v in d.get("violations", {}).items():
        if v:
            import re
            m = re.search(r"leg=(\S+) clause=(\S+)", v[0])
            if m:
                clause = f"{pid}/{m.group(1)}: `{m.group(2)}`"
                break
    rows.append((sid, d["property"], d["summary"].replace("|", "\\|"), d["needs_to_manifest"].replace("|", "\\|"),
                 ", ".join(k for k, v in det.items() if v) or "**none**", clause, hist.get(sid, "caught as built")))
out = ["# Seeded breaking changes", "",
       "Each directory holds one change to BioCantor written by a fresh sub-agent that was given only the text of one",
       "property and its own scratch worktree (nothing from /verif): `patch.diff`, the agent's `demo.py` (exits 0 on the",
       "unchanged tree, non-zero with the patch) and `meta.json`. A change is kept only after `tools/seeded.py` confirmed in a",
       "scratch copy that the patch applies, the pinned suite still prints `1466 passed, 86 errors`, and the demonstration",
       "passes before / fails after. `tools/seeded.py <dir> <id>` then runs our quick-tier checks against the patched copy",
       "(`VERIF_REPO=<copy>`) and records the first VIOLATION lines. None of these patches is ever committed to /repo.", "",
       "Re-run one: `tools/seeded.py seeded/<id> <id> --checks C05` (uses the stored patch and demo).", "",
       "| seed | property | change | needs, to manifest | detected by | first clause | history |", "|---|---|---|---|---|---|---|"]
for r in rows:
    out.append("| " + " | ".join(r) + " |")
open(os.path.join(HERE, "seeded", "README.md"), "w").write("\n".join(out) + "\n")
print(len(rows), "seeds")
