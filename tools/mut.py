#!/usr/bin/env python3
"""Sensitivity helper: apply one textual mutation to a scratch copy of the repository's package, run
given checks against it (VERIF_REPO), report whether each raised a VIOLATION, and delete the copy.

usage: mut.py <relative file under inscripta/biocantor> <old> <new> <PID>[,<PID>...] [--tests] [--count N] [--args "..."]
"""
import os, shutil, subprocess, sys, tempfile

def main():
    args = sys.argv[1:]
    run_tests = "--tests" in args
    if run_tests: args.remove("--tests")
    extra = []
    if "--args" in args:
        i = args.index("--args"); extra = args[i+1].split(); del args[i:i+2]
    count = 1
    if "--count" in args:
        i = args.index("--count"); count = int(args[i+1]); del args[i:i+2]
    rel, old, new, pids = args[:4]
    tmp = tempfile.mkdtemp(prefix="bcmut.", dir="/tmp")
    try:
        shutil.copytree("/repo/inscripta", os.path.join(tmp, "inscripta"))
        p = os.path.join(tmp, "inscripta/biocantor", rel)
        src = open(p).read()
        if src.count(old) < 1:
            print("MUTATION TARGET NOT FOUND"); return 3
        if count and src.count(old) != count:
            print("target occurs %d times (expected %d)" % (src.count(old), count)); return 3
        open(p, "w").write(src.replace(old, new))
        if run_tests:
            shutil.copytree("/repo/tests", os.path.join(tmp, "tests"))
            for f in ("setup.cfg", "pyproject.toml", "tox.ini"):
                if os.path.exists("/repo/" + f): shutil.copy("/repo/" + f, tmp)
            r = subprocess.run(["/venv/bin/python", "-m", "pytest", "-q", "-p", "no:cacheprovider", "--continue-on-collection-errors", "-n", "8", "tests"],
                               cwd=tmp, env=dict(os.environ, PYTHONPATH=tmp), capture_output=True, text=True)
            print("pinned tests on mutant:", r.stdout.strip().splitlines()[-1] if r.stdout.strip() else r.stderr[-300:])
        rc_all = 0
        for pid in pids.split(","):
            r = subprocess.run(["/verif/vcheck", pid] + extra, env=dict(os.environ, VERIF_REPO=tmp, VERIF_NO_EVIDENCE="1"), capture_output=True, text=True)
            viol = [l for l in r.stdout.splitlines() if l.startswith("VIOLATION") or l.strip().startswith("violation")]
            print("%s: exit=%d %s" % (pid, r.returncode, "DETECTED" if r.returncode == 1 else "MISSED" if r.returncode == 0 else "ERROR"))
            for l in viol[:6]: print("   ", l[:300])
            if r.returncode == 2: print(r.stderr[-1500:])
            if r.returncode != 1: rc_all = 1
        return rc_all
    finally:
        shutil.rmtree(tmp, ignore_errors=True)

sys.exit(main())
