#!/usr/bin/env python3
"""Re-run every stored seed (seeded/<id>/) against the checks recorded as detecting it; report seeds that are no longer
valid (patch does not apply to the current tree / demo no longer discriminates) or no longer detected.

usage: seeded_all.py [--only S_C05_1,S_C06_2] [--workers 2]
"""
import glob, json, os, subprocess, sys
from concurrent.futures import ThreadPoolExecutor

HERE = os.path.dirname(os.path.dirname(os.path.abspath(__file__)))


def one(sid):
    d = os.path.join(HERE, "seeded", sid)
    meta = json.load(open(os.path.join(d, "meta.json")))
    checks = [k for k, v in (meta.get("detected_by") or {}).items() if v] or [meta["property"]]
    r = subprocess.run([os.path.join(HERE, "tools", "seeded.py"), d, sid, "--checks", ",".join(checks)], capture_output=True, text=True)
    try:
        m = json.load(open(os.path.join(d, "meta.json")))
        return sid, m["confirmed"]["valid"], m["detected_by"]
    except Exception as e:
        return sid, None, {"error": (r.stderr or r.stdout)[-300:]}


def main():
    a = sys.argv[1:]
    only = None
    workers = 2
    if "--only" in a:
        only = a[a.index("--only") + 1].split(",")
    if "--workers" in a:
        workers = int(a[a.index("--workers") + 1])
    sids = sorted(os.path.basename(os.path.dirname(p)) for p in glob.glob(os.path.join(HERE, "seeded", "*", "meta.json")))
    if only:
        sids = [s for s in sids if s in only]
    bad = 0
    with ThreadPoolExecutor(workers) as ex:
        for sid, valid, det in ex.map(one, sids):
            ok = valid and any(det.values())
            bad += 0 if ok else 1
            print("%-10s valid=%s detected_by=%s%s" % (sid, valid, det, "" if ok else "   <-- ATTENTION"), flush=True)
    print("seeds: %d, needing attention: %d" % (len(sids), bad))
    return 1 if bad else 0


sys.exit(main())
