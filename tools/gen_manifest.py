#!/usr/bin/env python3
"""Regenerates MANIFEST.json from the table below (kept in one place so the manifest is always valid)."""
import json, os
HERE = os.path.dirname(os.path.dirname(os.path.abspath(__file__)))
ALL = ["C%02d" % i for i in range(1, 21)]

CHECKS = {
 "C01": dict(category="exploration", technique="Hypothesis-generated block layouts + exhaustive enumeration of all small layouts, judged by a position-list reference model (PosModel)",
   text="Random staggered layouts (empty/adjacent/overlapping blocks, both strands, shuffled constructor order, 2^31 offsets) and ALL layouts of <=3 blocks over a 7/8-base genome: every relative position, every parent position, every (start,end,strand) sub-interval, pairs (location, query location), and the FeatureInterval wrappers, compared base by base and in 5'->3' order with a list-of-positions model.",
   note="Nested blocks / ties on start between non-empty blocks are not generated (no canonical order). Known findings F1/F2 (self-overlapping locations) are listed in known_findings.json.", ref="DESIGN.md §5 C01"),
 "C02": dict(category="exploration", technique="exhaustive enumeration of all pairs of normalised locations over a small genome x strands x flags, plus Hypothesis-generated un-normalised operands with parents; oracle = Python set algebra on covered positions",
   text="All ordered pairs of non-empty position subsets of a 7-base (quick) / 9-base (thorough) genome x 9 strand pairs x all match_strand/full_span combinations for has_overlap, intersection, contains, minus, union, union_preserve_overlaps, distance (4 types), and all unary operations; random operands with empty/adjacent/overlapping blocks and five parent configurations; every returned location validated structurally.",
   note="Difference/containment only for operands without self-overlap (as stated). Normalisation (no empty/adjacent blocks) is demanded of optimize_* results only. cgranges branch unreachable (not installed).", ref="DESIGN.md §5 C02"),
 "C03": dict(category="exploration", technique="Hypothesis-generated locations over random genomes of every nucleotide alphabet, judged by a character-by-character sequence model with a typed-in IUPAC complement table",
   text="Extraction, strand reversal and splitting at random cut points for locations of any block structure over genomes in all 5 nucleotide alphabets (IUPAC codes, gaps, lower case); chains of slice (explicit/open/negative bounds), index, reverse-complement and append on sequences with a recorded location, each result's location re-read against the root genome.",
   note="T and U are identified when comparing reverse complements (complement(A) is T). Zero-length pieces may be refused. Known finding F3 (stepped slices).", ref="DESIGN.md §5 C03"),
 "C04": dict(category="exploration", technique="Hypothesis-generated coordinate hierarchies (depth 1..3) and chunk windows, judged by composing per-level position lists and by re-reading sequence from the root",
   text="Each level is placed on its parent by a 1..3-block location on either strand with sequences extracted from the root; child locations are lifted to every ancestor by type and by sequence identity and compared base-by-base/in order with the composed maps, and their extracted sequence with the root model; chromosome locations are lifted onto chunks (seq_chunk_to_parent), back, and chunk-to-chunk; absent ancestors and misses must be refused/empty.",
   note="Hierarchies built in the idiom of the library's own tests; non-overlapping placements; distinct ids per case.", ref="DESIGN.md §5 C04"),
 "C05": dict(category="exploration", technique="Hypothesis-generated CDS (layouts x strand x start offset x programmed frameshift x windows) plus exhaustive single-exon window product, judged by an independent reading-frame walk and Biopython's codon table",
   text="Codon locations as position triples, the fast and cached extraction paths, scan_codons, 12 translate configurations (3 start tables x truncate x strict), start/stop/in-frame-stop predicates, chromosome windows with and without expansion, and construct_frames_from_location, all against one FrameModel walk over the exons.",
   note="Degenerate corner (skip >= exon length) only checked for self-consistency; windows not touching any codon may be refused. Known finding F6 (single-exon offset arithmetic, pinned by the repository's own tests).", ref="DESIGN.md §5 C05"),
 "C06": dict(category="exploration", technique="Hypothesis-generated transcripts with the CDS placed as a contiguous run of the transcript (biased to ends/exon boundaries), judged by position lists T and C=T[i:j]",
   text="Every transcript, CDS and chromosome position (span+-1) through every conversion and its inverse, both paths chromosome->CDS, random intervals in each system, amino-acid index, non-coding refusals, 5'UTR/CDS/3'UTR partition (positions, order, sequence concatenation), introns and span.",
   note="An empty UTR may be any zero-length location but never an exception.", ref="DESIGN.md §5 C06"),
 "C10": dict(category="exploration", technique="Hypothesis rule-based state machines (one per object family) generating call histories, with cache-eviction and unrelated-object disturbances; each answer compared, by type and value, with a freshly built twin asked only that question; operand snapshots as invariant",
   text="Nine families (location/parent, sequence with recorded location, CDS, transcript, feature, gene, feature collection, annotation collection, variant collection) with 20-60 registered questions each (accessors, cached methods, conversions, exports, set operations with a second operand, queries, pickling, variant incorporation), repetitions, focused rules for questions that share a cache and differ in arguments, eviction of the global Parent cache (>1000 parents), interleaving with an unrelated object; after every step the dictionary form, hash, identifier, qualifiers and children of every operand must be unchanged.",
   note="Single-threaded histories only. The shrunk history is stored as a JSON spec and replayed without Hypothesis.", ref="DESIGN.md §5 C10"),
 "C11": dict(category="exploration", technique="Hypothesis-generated collections with special-character qualifiers: exported text re-read by an independent GFF3 reader (percent-decoding) and by BioCantor's own parsers, then re-exported (round trip / fixpoint)",
   text="Syntax leg: header, 9 columns, 1-based inclusive coordinates equal to the source blocks (chromosome or chunk-relative), strand symbols, phase only on CDS and equal to the frame-derived phase, unique IDs, Parent defined on an earlier line and of the right type, rows ordered by start, reserved keys never emitted from qualifiers, every key/value decoding back to the source text, FASTA section equal to the sequence. Re-parse leg: exons, CDS blocks, frames, strand, ids, symbols, locus tag, biotypes, protein id, product, qualifiers per gene; re-export equals the file up to digest-valued IDs and is a fixpoint. Attribute leg: 2500+ escaping cases.",
   note="Re-parse excludes comma/double quote (gffutils limits). Known finding F24 (duplicate CDS row IDs for isoforms sharing a CDS; pinned by repository GFF3 fixtures).", ref="DESIGN.md §5 C11"),
 "C12": dict(category="exploration", technique="Hypothesis-generated single-strand gene models written in both GenBank flavours, read back by Biopython (independent reader) and by BioCantor's three parser modes (differential)",
   text="Per flavour: record sequence; for every gene/transcript/CDS/feature a record of the documented type with exactly the source blocks and strand, the source identifiers in its qualifiers, /codon_start = start frame + 1, /translation (on request only) equal to an independent codon-table translation; parse_genbank in sorted, locus-tag and hybrid mode recovers structure (exons in eukaryotic, CDS in prokaryotic flavour), strand, frames, symbols, locus tags, ids, protein ids, and the three modes return equal collections.",
   note="Through the Biopython compat shim. One transcript per gene; CDS with a single reading frame (GenBank cannot carry frameshifts).", ref="DESIGN.md §5 C12"),
 "C13": dict(category="exploration", technique="Hypothesis-generated references, non-overlapping variant sets and locations/intervals, judged by a literal-substitution edit model (per-block edited image), plus duck-typed VCF records against a partition-by-phase-set model",
   text="alternative_genomic_sequence of single variants and collections (given sorted or shuffled) on whole chromosomes and chunks; lift-over of locations through each single variant and through the collection, with and without sequence (positions and extracted sequence equal the edited image; fully deleted locations are empty); incorporate_variants on features, transcripts, CDS and genes (spliced sequences, operand unchanged); alternative_haplotype_mapping by span overlap; VCF records grouped by phase set with one variant per ALT allele.",
   note="PyVCF3 absent: only convert_vcf_records_to_model. Straddling variants must merely not fail with an internal error. Known finding F14 (multi-variant haplotypes with a length change before the last variant; repair would contradict the repository's own expected values for straddling variants).", ref="DESIGN.md §5 C13"),
 "C14": dict(category="exploration", technique="Hypothesis-generated transcripts/features x chunk windows x export modes; the exported text is re-read by an independent 12-column BED reader and decoded back to blocks",
   text="BED12 format invariants (block count, first start 0, ascending non-overlapping blocks, last block reaches end, thick range inside) and exact decoding to the exported blocks, span, strand, name, score, RGB and CDS bounds in chromosome and chunk-relative coordinates.",
   note="Chunk windows contain the interval; thickStart=thickEnd=0 accepted for non-coding records (documented convention).", ref="DESIGN.md §5 C14"),
 "C07": dict(category="exploration", technique="twin differential over Hypothesis-generated (object, chunk window) pairs plus an exhaustive single-exon CDS x chunk product; the whole-chromosome twin and the Pos/Seq/Frame models restricted to the window are the oracle",
   text="Features, CDS, transcripts, genes, feature collections and annotation collections are built twice - on seq_to_parent(genome) and on seq_chunk_to_parent(genome[cs:ce]) - and compared: chromosome-level blocks, dictionary form, identifiers, codon triples must be identical; chunk-relative locations, sequences and codons must equal the chromosome answers restricted to the window; misses must be empty, never an error.",
   note="Known findings: F6b (single-exon CDS offset arithmetic, pinned by repository tests), F22 (collection-level GUIDs digest the chunk-relative location).", ref="DESIGN.md §5 C07"),
 "C08": dict(category="exploration", technique="Hypothesis-generated collections and members: round trips (dict, schema through JSON text, pickle) + differential runs in persistent worker processes across a PYTHONHASHSEED sweep + metamorphic identifier sensitivity",
   text="from_dict(to_dict) (also with export_parent), Model.from_* -> Schema.dump -> JSON -> Schema.load -> to_*, and pickling must return an equal object with the same identifier, dictionary, hash, qualifiers, chunk-relative blocks and sequences (incl. alternative haplotype sequence of variant collections) on no parent / whole chromosome / chunk; identifiers and dictionary digests must agree across hash seeds and qualifier insertion orders; one changed coordinate/strand/frame must change the identifiers of the interval and its ancestors only.",
   note="Hash-seed sweep is finite (4 quick / 16 thorough). Variant collections are placed clear of genes so C13 behaviour is not mixed in. Uses the marshmallow 4 compat shim.", ref="DESIGN.md §5 C08"),
 "C09": dict(category="exploration", technique="Hypothesis-generated collections x query ranges/flags/identifier subsets plus an exhaustive all-ranges x all-flags sweep over a fixed collection, judged by brute-force membership over child spans and by SeqModel for member sequences",
   text="query_by_position (strict/relaxed, coding-only, expansion; ranges absolute, open, or pinned to member edges; collections on no parent, id-only parent, whole chromosome, chunk, or placed around multiples of 2^17 so the bin prefilter is active), identifier, GUID and the three interval-GUID queries: exact member sets, documented bounds, member dictionaries/identifiers unchanged, kept grandchildren exactly the requested ones, member sequences equal the source restricted to the new bounds, invalid ranges refused.",
   note="cgranges absent: only the non-optimised path runs. Variant collections sit clear of genes.", ref="DESIGN.md §5 C09"),
 "C15": dict(category="exploration", technique="exhaustive enumeration of the finite domains against typed-in IUPAC tables and Biopython's NCBI codon tables",
   text="Every element of every finite domain (4096 IUPAC triplets x case, all alphabet letters, frames x shifts in [-30,30], all strand pairs/triples, all biotype names) is enumerated and compared with an independent reference; within those domains this is complete.",
   note="Trusts Biopython CodonTable ids 1/11 and Bio.Seq.complement; IUPAC tables typed into checks/c15.py.", ref="DESIGN.md §5 C15"),
 "C16": dict(category="exploration", technique="exhaustive enumeration of +-3 bands around sampled bin boundaries of every level (all boundary pairs) plus Hypothesis-generated pairs up to 2^30, judged by a re-typed 'smallest containing bin' oracle and an independent never-hides relation",
   text="All (start,end) with both ends within +-3 of boundaries of every level 2^17..2^29 (pairs of boundaries included) in both coordinate conventions, random pairs to 2^30 incl. out-of-range; bins(one=True) must equal the smallest standard bin containing the interval; bins(one=False) must contain every bin overlapping the range; for generated (query, interval) pairs that overlap, the interval's bin must be in the query's bin set.",
   note="Bin numbering as documented in util/bins.py. The end-to-end form through collection queries is in C09.", ref="DESIGN.md §5 C16"),
 "C17": dict(category="exploration", technique="Hypothesis-generated collections with sequences carrying planted start/stop/in-frame-stop codons, exported as .tbl and re-read by an independent 5-column reader; partial marks, codon_start and pseudo judged by the FrameModel and NCBI codon tables",
   text="Header naming the sequence; per gene the gene / mRNA+CDS (eukaryotic) / CDS (prokaryotic) / RNA records in order, each with exactly the merged source blocks as 1-based inclusive 5'->3' intervals; 5'-partial iff the first codon is not a start codon of the chosen table; 3'-partial iff not (in-frame end on a stop codon); codon_start = start frame + 1 on CDS only; pseudo iff an in-frame stop exists; locus tags unique and increasing by the step; identical text for a repeated run with the same seed (including seed 0).",
   note="One transcript per gene, all coding or all non-coding (writer's documented assumption); ACGT only.", ref="DESIGN.md §5 C17"),
 "C18": dict(category="exploration", technique="exhaustive enumeration of key subsets x ALL orderings (metamorphic order-independence against a typed-in priority table) plus Hypothesis-generated larger subsets, type-like keys, merge pairs and permuted GenBank feature tables",
   text="Name/ID choice for all subsets (size<=4 quick, <=5 thorough) of 9 recognised + 9 look-alike keys in every ordering and four letter-case patterns, /note fallback, feature-type collection from *_class / gbkey / *_type keys, merge_qualifiers as key-wise sorted union that commutes and leaves operands alone, and LOCUS_TAG-mode GenBank parsing of the same record under permutations of its feature table.",
   note="Known finding F17 (rank-0 key treated as unset; pinned by the repository's own test). GenBank leg compares genes (feature collections take name/id from their first record by design).", ref="DESIGN.md §5 C18"),
 "C19": dict(category="fault_enumeration", technique="systematic argument corruption (one invalid value per constructor argument, ~75 kinds) and a boundary-argument sweep of a registry of public methods over Hypothesis-generated valid objects; outcome classified against the documented exception types and structural validators",
   text="Every corruption must raise a documented exception (BioCantorException subclass, ValueError, NotImplementedError) or yield an object that passes the structural validators; every registry method on valid locations, transcripts/CDS, features, genes, collections and variants (on no parent, chromosome, and chunks that cut or miss the object) with 0, len-1, len, len+1, window==length and zero-length arguments must return a well-formed value or a documented exception - AttributeError, IndexError, KeyError, RecursionError, UnboundLocalError, NameError, ZeroDivisionError, leaked StopIteration and call-signature TypeErrors are violations.",
   note="Wrong argument types and out-of-enumeration strings in dictionaries are out of scope. The registry of methods is in checks/c19.py.", ref="DESIGN.md §5 C19"),
 "C20": dict(category="exploration", technique="Hypothesis-generated genes / feature collections with engineered ties (shifted copies), strand and coding mixes and primary flags, judged by min/max, set union and an explicit argmax model",
   text="Span, is_coding, feature types, merged transcript/CDS/feature position sets, primary selection (single flag, several flags refused, else longest CDS then longest spliced length then list position), primary sequence/CDS/protein accessors against the chosen child's values, and start-ordered stable iteration of annotation collections.",
   note="Merged blocks are required to be sorted, disjoint and to cover exactly the union; merging of adjacent blocks is not demanded.", ref="DESIGN.md §5 C20"),
}
PENDING_REASON = "not claimed"

def main():
    checks = []
    for pid in ALL:
        if pid not in CHECKS: continue
        c = CHECKS[pid]
        checks.append({
            "property_id": pid,
            "quick_cmd": "./vcheck %s --tier quick" % pid,
            "thorough_cmd": "./vcheck %s --tier thorough" % pid,
            "evidence_file": "evidence/%s.json" % pid,
            "replay_cmd_template": "./vcheck %s --replay {path}" % pid,
            "engine": "harness",
            "level_claimed": {"category": c["category"], "text": c["text"], "design_ref": c["ref"]},
            "level_note": c["note"],
            "technique": c["technique"],
        })
    m = {
        "version": 1,
        "setup_cmd": "./setup.sh",
        "hooks": {"guard": "BIOCANTOR_VERIF", "enable": "no source hooks are needed: BioCantor is imported from /repo's working tree via PYTHONPATH by ./vcheck (BIOCANTOR_VERIF=1 is exported but unused by the repository)",
                  "baseline_off_cmd": "cd /repo && /venv/bin/python -m pytest -ra -q -p no:cacheprovider --timeout=900 --continue-on-collection-errors",
                  "source_commits": [], "add_only": True},
        "engines": [{"name": "harness", "path": "harness/", "serves_properties": sorted(CHECKS),
                     "kind_free_text": "Hypothesis-driven property-based testing (seeded by VERIF_SEED), rule-based state machines, exhaustive enumeration of finite domains, explicit oracles (reference models, round trips, independent readers); python, runs BioCantor from /repo's working tree"}],
        "checks": checks,
        "not_applicable": [{"property_id": p, "reason": PENDING_REASON} for p in ALL if p not in CHECKS],
        "notes": "All checks: ./vcheck <ID> [--tier quick|thorough]; exit 0 held / 1 VIOLATION / 2 harness error. Known findings: known_findings.json. See DESIGN.md.",
    }
    json.dump(m, open(os.path.join(HERE, "MANIFEST.json"), "w"), indent=1)
    print("manifest:", len(checks), "checks,", len(m["not_applicable"]), "not claimed")
main()
