#!/usr/bin/env python3
"""Regenerates MANIFEST.json from the table below (kept in one place so the manifest is always valid)."""
import json, os
HERE = os.path.dirname(os.path.dirname(os.path.abspath(__file__)))
ALL = ["C%02d" % i for i in range(1, 21)]

CHECKS = {
 "C15": dict(category="exploration", technique="exhaustive enumeration of the finite domains against typed-in IUPAC tables and Biopython's NCBI codon tables",
   text="Every element of every finite domain (4096 IUPAC triplets x case, all alphabet letters, frames x shifts in [-30,30], all strand pairs/triples, all biotype names) is enumerated and compared with an independent reference; within those domains this is complete.",
   note="Trusts Biopython CodonTable ids 1/11 and Bio.Seq.complement; IUPAC tables typed into checks/c15.py.", ref="DESIGN.md §5 C15"),
}
PENDING_REASON = "check not built yet in this round (planned in DESIGN.md §5); not claimed"

def main():
    checks = []
    for pid in ALL:
        if pid not in CHECKS: continue
        c = CHECKS[pid]
        checks.append({
            "property_id": pid,
            "quick_cmd": "./vcheck %s --tier quick" % pid,
            "thorough_cmd": "./vcheck %s --tier thorough" % pid,
            "evidence_file": "evidence/%s.json" % pid,
            "replay_cmd_template": "./vcheck %s --replay {path}" % pid,
            "engine": "harness",
            "level_claimed": {"category": c["category"], "text": c["text"], "design_ref": c["ref"]},
            "level_note": c["note"],
            "technique": c["technique"],
        })
    m = {
        "version": 1,
        "setup_cmd": "./setup.sh",
        "hooks": {"guard": "BIOCANTOR_VERIF", "enable": "no source hooks are needed: BioCantor is imported from /repo's working tree via PYTHONPATH by ./vcheck (BIOCANTOR_VERIF=1 is exported but unused by the repository)",
                  "baseline_off_cmd": "cd /repo && /venv/bin/python -m pytest -ra -q -p no:cacheprovider --timeout=900 --continue-on-collection-errors",
                  "source_commits": [], "add_only": True},
        "engines": [{"name": "harness", "path": "harness/", "serves_properties": sorted(CHECKS),
                     "kind_free_text": "Hypothesis-driven property-based testing (seeded by VERIF_SEED), rule-based state machines, exhaustive enumeration of finite domains, explicit oracles (reference models, round trips, independent readers); python, runs BioCantor from /repo's working tree"}],
        "checks": checks,
        "not_applicable": [{"property_id": p, "reason": PENDING_REASON} for p in ALL if p not in CHECKS],
        "notes": "All checks: ./vcheck <ID> [--tier quick|thorough]; exit 0 held / 1 VIOLATION / 2 harness error. Known findings: known_findings.json. See DESIGN.md.",
    }
    json.dump(m, open(os.path.join(HERE, "MANIFEST.json"), "w"), indent=1)
    print("manifest:", len(checks), "checks,", len(m["not_applicable"]), "not claimed")
main()
